(* GoReProofs.v — Re (valid/validfn.go) from the source text: the pattern is what follows the first quote of the whole rule
   text up to the first quote not preceded by a backslash (the byte loop, by induction: it is the model's re_scan), the
   message is parsed from the rule text with the pattern cut out, regexp.MatchString decides (oracle).  For rule texts
   of bytes (every element below 256). *)
From Coq Require Import String.
From PGV Require Import Base.Bytes Base.GoStr Base.GoNum Base.Utf8 Base.MiniGo Regex.Re Regex.Rx.
From PGV Require Import Extracted.SourceConst Extracted.SourceRegex Extracted.SourceFnsInts.
From PGV Require Import Model.RuleText Model.Value Model.Clause Model.Rules Model.GoRule Proofs.GoFmtProofs Proofs.GoUniqueProofs.
Open Scope Z_scope.

Lemma skipn_cons' {X} (l : list X) : forall n x r, skipn n l = x :: r -> nth_error l n = Some x /\ skipn (S n) l = r.
Proof.
  induction l as [|a l IH]; intros [|n] x r H; cbn in *; try discriminate.
  - inversion H; auto.
  - apply IH. exact H.
Qed.
Lemma skipn_nonempty {X} (l : list X) n : (n < List.length l)%nat -> exists x r, skipn n l = x :: r.
Proof.
  revert n; induction l as [|a l IH]; intros [|n] H; cbn in *; try lia; [eauto|]. apply IH. lia.
Qed.
Lemma skipn_len {X} (l : list X) n x r : skipn n l = x :: r -> (n + 1 + List.length r = List.length l)%nat.
Proof. intros H. pose proof (skipn_length n l) as E. rewrite H in E. cbn in E. assert (n < List.length l)%nat by lia. lia. Qed.

Definition not_reloop (x : string) : Prop :=
  String.eqb x "b" = false /\ String.eqb x "v" = false /\ String.eqb x "next" = false /\ String.eqb x "i" = false.

Section Loop.
  Variable vn : str.
  Variable ferr : str.                     (* what GetJoinFieldErr(objName, fieldName, reErr) returns *)
  Variable body : renv -> rflow.
  Variable Inv : renv -> Prop.             (* the variables the body only reads *)
  Hypothesis Inv_pres : forall e0 x w, Inv e0 -> (String.eqb x "b" = true \/ String.eqb x "v" = true \/ String.eqb x "next" = true \/ String.eqb x "i" = true) -> Inv (rset x w e0).
  Hypothesis Hbody : forall i v r e0 b acc, skipn i vn = v :: r -> Inv e0 ->
    e0 "i"%string = RZ (Z.of_nat i) -> e0 "b"%string = RS b -> e0 "errBuf"%string = RS acc ->
    body e0 =
      match r with
      | [] => RRet (rset "errBuf" (RS (acc ++ ferr)) (rset "next" (RZ (Z.of_nat i + 1)) (rset "b" (RS (b ++ [v])) (rset "v" (RZ (Z.of_N v)) e0))))
      | nx :: _ =>
        if negb (N.eqb v BACKSLASH) && N.eqb nx QUOTE
        then RBrk (rset "next" (RZ (Z.of_nat i + 1)) (rset "b" (RS (b ++ [v])) (rset "v" (RZ (Z.of_N v)) e0)))
        else RNext (rset "next" (RZ (Z.of_nat i + 1)) (rset "b" (RS (b ++ [v])) (rset "v" (RZ (Z.of_N v)) e0)))
      end.

  Lemma re_loop : forall n i e b acc, (1 <= n)%nat -> (i + n = List.length vn)%nat -> Inv e ->
    e "b"%string = RS b -> e "errBuf"%string = RS acc ->
    match re_scan (skipn i vn) (rev b) with
    | None => exists e', counted_loop n (Z.of_nat i) "i" body e = RRet e' /\ e' "errBuf"%string = RS (acc ++ ferr)
    | Some (pat, rest) =>
      exists e' j, counted_loop n (Z.of_nat i) "i" body e = RNext e' /\ e' "b"%string = RS pat /\ e' "i"%string = RZ (Z.of_nat j) /\
                   skipn (S j) vn = QUOTE :: rest /\ e' "errBuf"%string = RS acc /\ (forall x, not_reloop x -> e' x = e x)
    end.
  Proof.
    induction n as [|n IH]; intros i e b acc Hn Hlen Hinv Hb Hacc; [lia|].
    destruct (skipn_nonempty vn i ltac:(lia)) as (v & r & Hs). rewrite Hs. cbn [counted_loop re_scan].
    assert (Hinv1 : Inv (rset "i" (RZ (Z.of_nat i)) e)) by (apply Inv_pres; [exact Hinv|auto]).
    rewrite (Hbody i v r (rset "i" (RZ (Z.of_nat i)) e) b acc Hs Hinv1 eq_refl Hb Hacc).
    destruct r as [|nx r'].
    - eexists. split; [reflexivity|]. reflexivity.
    - destruct (negb (N.eqb v BACKSLASH) && N.eqb nx QUOTE) eqn:Ec.
      + apply andb_true_iff in Ec. destruct Ec as [_ Eq]. apply N.eqb_eq in Eq. subst nx.
        eexists. exists i. split; [reflexivity|]. split; [cbn [rev]; rewrite rev_involutive; reflexivity|].
        split; [reflexivity|]. split; [exact (proj2 (skipn_cons' vn i v _ Hs))|]. split; [exact Hacc|].
        intros x (H1 & H2 & H3 & H4). unfold rset. rewrite H1, H2, H3, H4. reflexivity.
      + destruct (skipn_cons' vn i v _ Hs) as (_ & Hs1).
        pose proof (skipn_len vn i v _ Hs) as Hl. cbn [List.length] in Hl.
        replace (Z.of_nat i + 1) with (Z.of_nat (S i)) by lia.
        set (e1 := rset "next" _ _).
        assert (Hinv2 : Inv e1) by (unfold e1; repeat (apply Inv_pres; auto)).
        specialize (IH (S i) e1 (b ++ [v]) acc ltac:(lia) ltac:(lia) Hinv2 eq_refl Hacc).
        rewrite Hs1 in IH. rewrite rev_app_distr in IH. cbn [rev app] in IH.
        destruct (re_scan (nx :: r') (v :: rev b)) as [[pat rest]|].
        * destruct IH as (e' & j & He' & Hb' & Hi' & Hsk & Hacc' & Hag). exists e', j.
          repeat split; try assumption. intros x Hx. rewrite (Hag x Hx).
          destruct Hx as (H1 & H2 & H3 & H4). unfold e1, rset. rewrite H1, H2, H3, H4. reflexivity.
        * exact IH.
  Qed.
End Loop.

Lemma nat_leb0' n : (0 <=? Z.of_nat n) = true.
Proof. apply Z.leb_le. lia. Qed.
Lemma of_nat_ne_m1' n : (Z.of_nat n =? -1) = false.
Proof. apply Z.eqb_neq. lia. Qed.

Lemma zn_eqb_pos (a : N) p : (Z.of_N a =? Z.pos p) = N.eqb a (N.pos p).
Proof. destruct (N.eqb_spec a (N.pos p)); [apply Z.eqb_eq|apply Z.eqb_neq]; lia. Qed.

Lemma rslice_to (x : str) n : (n <= List.length x)%nat -> rslice x 0 (Z.of_nat n) = RS (firstn n x).
Proof.
  intros H. unfold rslice. replace ((0 <=? 0) && (0 <=? Z.of_nat n) && (Z.of_nat n <=? Z.of_nat (List.length x))) with true.
  - cbn [skipn Z.to_nat]. f_equal. f_equal. lia.
  - symmetry. rewrite !andb_true_iff. repeat split; apply Z.leb_le; lia.
Qed.
Lemma rslice_from (x : str) n : (n + 1 <= List.length x)%nat -> rslice x (Z.of_nat n + 1) (Z.of_nat (List.length x)) = RS (skipn (S n) x).
Proof.
  intros H. unfold rslice.
  replace ((0 <=? Z.of_nat n + 1) && (Z.of_nat n + 1 <=? Z.of_nat (List.length x)) && (Z.of_nat (List.length x) <=? Z.of_nat (List.length x))) with true.
  - replace (Z.to_nat (Z.of_nat n + 1)) with (S n) by lia.
    replace (Z.to_nat (Z.of_nat (List.length x) - (Z.of_nat n + 1))) with (List.length (skipn (S n) x)) by (rewrite skipn_length; lia).
    rewrite firstn_all. reflexivity.
  - symmetry. rewrite !andb_true_iff. repeat split; apply Z.leb_le; lia.
Qed.
Lemma idx_bound' c (x : str) n : index_byte c x = Some n -> (n < List.length x)%nat.
Proof.
  revert n. induction x as [|a x IH]; intros n; cbn [index_byte]; [discriminate|].
  destruct (N.eqb a c); [intros H; inversion H; cbn; lia|].
  destruct (index_byte c x) as [m|]; [|discriminate]. intros H. inversion H; subst. cbn. specialize (IH m eq_refl). lia.
Qed.

Section Re.
  Variable orc : oracles.
  Variable U : val -> str.
  Variable FE : str -> str -> ftext -> str.
  Variable ST : str -> str.

  Definition re_text (vn obj field : str) (v : val) : str :=
    match v with
    | VStr s =>
      match index_byte QUOTE vn with
      | None => FE obj field (FRuleErr (s2b "re"))
      | Some si =>
        match re_scan (skipn (si + 1) vn) [] with
        | None => FE obj field (FRuleErr (s2b "re"))
        | Some (pattern, rest) =>
          let new_vn := firstn si vn ++ QUOTE :: rest in
          if re_ok orc pattern s then []
          else msg_text (s2b "regex match is failed, pattern: " ++ pattern) new_vn obj field s
        end
      end
    | _ => join_valid_err obj field (value_string v) [ExplainEn; MUST_STR]
    end.

  Ltac estep :=
    lazy beta iota zeta delta
      [run_rule rexec rexec_list reval rcall bind strs rset rempty fn_body check_str_err rkind kind_is
       fn_Re assigns assigns_any existsb
       width_name String.append String.eqb Ascii.eqb Bool.eqb andb orb negb fst snd];
    cbn [str_eqb value_string Z.leb Z.ltb Z.compare Z.opp Z.eqb Pos.eqb].

  Theorem re_from_source vn obj field v : forallb (fun c => N.ltb c 256) vn = true ->
    run_rule orc U FE ST fn_Re vn obj field v = Some (re_text vn obj field v).
  Proof.
    intros Hbytes. unfold re_text, QUOTE.
    destruct v as [| | [] | [] | [] | | | | | | | | | |]; estep; try reflexivity.
    destruct (index_byte 39%N vn) as [si|] eqn:Esi; rewrite ?of_nat_ne_m1'; estep; [|reflexivity].
    replace (Z.of_nat si + 1) with (Z.of_nat (si + 1)) by lia.
    destruct (Z.leb_spec (Z.of_nat (List.length vn)) (Z.of_nat (si + 1))) as [Hshort|Hlong]; estep.
    { rewrite skipn_all2 by lia. reflexivity. }
    replace (Z.of_nat (si + 1) <=? Z.of_nat (List.length vn)) with true by (symmetry; apply Z.leb_le; lia).
    replace (Z.to_nat (Z.of_nat (List.length vn) - Z.of_nat (si + 1))) with (List.length vn - (si + 1))%nat by lia.
    match goal with |- context[counted_loop ?n ?i0 "i"%string ?body ?e] =>
      set (BODY := body); set (E := e);
      pose (Inv := fun e0 : renv => e0 "validName"%string = RS vn /\ e0 "l"%string = RZ (Z.of_nat (List.length vn)) /\
                     e0 "objName"%string = RS obj /\ e0 "fieldName"%string = RS field /\ e0 "append"%string = RBad /\
                     e0 "GetJoinFieldErr"%string = RBad /\ e0 "reErr"%string = RErr (Some (FRuleErr (s2b "re"))))
    end.
    assert (Hpres : forall e0 x w, Inv e0 -> (String.eqb x "b" = true \/ String.eqb x "v" = true \/ String.eqb x "next" = true \/ String.eqb x "i" = true) -> Inv (rset x w e0)).
    { intros e0 x w (A1 & A2 & A3 & A4 & A5 & A6 & A7) Hx. unfold Inv, rset.
      assert (Hne : forall y, (String.eqb y "b" || String.eqb y "v" || String.eqb y "next" || String.eqb y "i")%bool = false -> String.eqb y x = false).
      { intros y Hy. apply orb_false_iff in Hy. destruct Hy as [Hy H4]. apply orb_false_iff in Hy. destruct Hy as [Hy H3].
        apply orb_false_iff in Hy. destruct Hy as [H1 H2].
        destruct (String.eqb_spec y x) as [->|]; [|reflexivity]. destruct Hx as [Hx|[Hx|[Hx|Hx]]]; congruence. }
      rewrite !Hne by reflexivity. repeat split; assumption. }
    assert (Hbyte : forall k c, nth_error vn k = Some c -> (0 <=? Z.of_N c) = true /\ (Z.of_N c <? 256) = true).
    { intros k c Hk. apply nth_error_In in Hk. rewrite forallb_forall in Hbytes. specialize (Hbytes c Hk).
      apply N.ltb_lt in Hbytes. split; [apply Z.leb_le|apply Z.ltb_lt]; lia. }
    assert (Hbody : forall i v r e0 b acc, skipn i vn = v :: r -> Inv e0 ->
      e0 "i"%string = RZ (Z.of_nat i) -> e0 "b"%string = RS b -> e0 "errBuf"%string = RS acc ->
      BODY e0 =
        match r with
        | [] => RRet (rset "errBuf" (RS (acc ++ FE obj field (FRuleErr (s2b "re")))) (rset "next" (RZ (Z.of_nat i + 1)) (rset "b" (RS (b ++ [v])) (rset "v" (RZ (Z.of_N v)) e0))))
        | nx :: _ =>
          if negb (N.eqb v BACKSLASH) && N.eqb nx QUOTE
          then RBrk (rset "next" (RZ (Z.of_nat i + 1)) (rset "b" (RS (b ++ [v])) (rset "v" (RZ (Z.of_N v)) e0)))
          else RNext (rset "next" (RZ (Z.of_nat i + 1)) (rset "b" (RS (b ++ [v])) (rset "v" (RZ (Z.of_N v)) e0)))
        end).
    { intros i v r e0 b acc Hs (A1 & A2 & A3 & A4 & A5 & A6 & A7) Hi Hb Hacc.
      destruct (skipn_cons' vn i v r Hs) as (Hnth & Hs1). pose proof (skipn_len vn i v r Hs) as Hl.
      unfold BODY. estep. rewrite A1, Hi. estep. rewrite nat_leb0', Nat2Z.id, Hnth. estep.
      rewrite A5, Hb. estep. destruct (Hbyte i v Hnth) as (Hb1 & Hb2). rewrite Hb1, Hb2, N2Z.id. estep. rewrite Hi, A2. estep.
      destruct r as [|nx r']; cbn [List.length] in Hl.
      - replace (Z.of_nat (List.length vn) - 1 <? Z.of_nat i + 1) with true by (symmetry; apply Z.ltb_lt; lia).
        estep. rewrite Hacc, A6, A3, A4, A7. estep.
        lazy beta iota zeta delta [rset String.eqb Ascii.eqb Bool.eqb]. reflexivity.
      - replace (Z.of_nat (List.length vn) - 1 <? Z.of_nat i + 1) with false by (symmetry; apply Z.ltb_ge; lia).
        estep. rewrite A1. estep.
        destruct (skipn_cons' vn (S i) nx r' Hs1) as (Hnth1 & _).
        replace (0 <=? Z.of_nat i + 1) with true by (symmetry; apply Z.leb_le; lia).
        replace (Z.to_nat (Z.of_nat i + 1)) with (S i) by lia. rewrite Hnth1. estep.
        unfold BACKSLASH, QUOTE. rewrite !zn_eqb_pos.
        destruct (N.eqb v 92); destruct (N.eqb nx 39); estep;
          lazy beta iota zeta delta [rset String.eqb Ascii.eqb Bool.eqb]; reflexivity. }
    assert (HinvE : Inv E) by (repeat split; reflexivity).
    pose proof (re_loop vn (FE obj field (FRuleErr (s2b "re"))) BODY Inv Hpres Hbody (List.length vn - (si + 1)) (si + 1) E [] []
                  ltac:(lia) ltac:(lia) HinvE eq_refl eq_refl) as HL.
    cbn [rev] in HL. replace (Z.of_nat si + 1) with (Z.of_nat (si + 1)) by lia.
    replace (Z.to_nat (Z.of_nat (List.length vn) - Z.of_nat (si + 1))) with (List.length vn - (si + 1))%nat by lia.
    replace (Z.of_nat (si + 1) <=? Z.of_nat (List.length vn)) with true by (symmetry; apply Z.leb_le; lia).
    destruct (re_scan (skipn (si + 1) vn) []) as [[pat rest]|].
    2: { destruct HL as (e' & He' & Hacc'). rewrite He'. estep. rewrite Hacc'. reflexivity. }
    destruct HL as (e' & j & He' & Hb' & Hi' & Hsk & Hacc' & Hag). rewrite He'. clear He' Hbody.
    assert (B1 : e' "validName"%string = E "validName"%string) by (apply Hag; repeat split; reflexivity).
    assert (B2 : e' "splitIndex"%string = E "splitIndex"%string) by (apply Hag; repeat split; reflexivity).
    assert (B3 : e' "tv"%string = E "tv"%string) by (apply Hag; repeat split; reflexivity).
    assert (B4 : e' "objName"%string = E "objName"%string) by (apply Hag; repeat split; reflexivity).
    assert (B5 : e' "fieldName"%string = E "fieldName"%string) by (apply Hag; repeat split; reflexivity).
    assert (B6 : e' "ExplainEn"%string = E "ExplainEn"%string) by (apply Hag; repeat split; reflexivity).
    assert (B7 : e' "string"%string = E "string"%string) by (apply Hag; repeat split; reflexivity).
    assert (B8 : e' "ParseValidNameKV"%string = E "ParseValidNameKV"%string) by (apply Hag; repeat split; reflexivity).
    assert (B9 : e' "GetJoinValidErrStr"%string = E "GetJoinValidErrStr"%string) by (apply Hag; repeat split; reflexivity).
    unfold E in B1, B2, B3, B4, B5, B6, B7, B8, B9.
    lazy beta iota zeta delta [String.eqb Ascii.eqb Bool.eqb] in B1, B2, B3, B4, B5, B6, B7, B8, B9.
    clear Hag HinvE Hpres. clearbody E BODY. clear E BODY Inv.
    repeat (estep; rewrite ?Hb', ?Hi', ?Hacc', ?B1, ?B2, ?B3, ?B4, ?B5, ?B6, ?B7, ?B8, ?B9).
    pose proof (idx_bound' _ _ _ Esi) as Hsi.
    assert (Hj : (j + 1 + 1 + List.length rest = List.length vn)%nat).
    { pose proof (skipn_length (S j) vn) as E. rewrite Hsk in E. cbn in E. assert (S j < List.length vn)%nat by lia. lia. }
    rewrite rslice_to by lia. rewrite rslice_from by lia. rewrite Hsk.
    repeat (estep; rewrite ?Hb', ?Hi', ?Hacc', ?B1, ?B2, ?B3, ?B4, ?B5, ?B6, ?B7, ?B8, ?B9).
    destruct (re_ok orc pat s); repeat (estep; rewrite ?Hb', ?Hi', ?Hacc', ?B1, ?B2, ?B3, ?B4, ?B5, ?B6, ?B7, ?B8, ?B9); try reflexivity.
    unfold msg_text. destruct (pk_msg _) as [|c1 m1];
      repeat (estep; rewrite ?Hb', ?Hi', ?Hacc', ?B1, ?B2, ?B3, ?B4, ?B5, ?B6, ?B7, ?B8, ?B9); cbn [app]; try reflexivity.
  Qed.

  Hypothesis FE_nonempty : forall o f t, FE o f t <> [].

  Theorem re_decides vn obj field v : re_text vn obj field v = [] <-> rRe orc vn obj field v = [].
  Proof.
    unfold re_text, rRe, check_is_str.
    destruct v; try (split; intros H; [exfalso; revert H; apply jve_nonempty | discriminate H]).
    cbn [str_of]. destruct (index_byte QUOTE vn) as [si|];
      [|split; intros H; [exfalso; revert H; apply FE_nonempty | discriminate H]].
    destruct (re_scan _ []) as [[pat rest]|];
      [|split; intros H; [exfalso; revert H; apply FE_nonempty | discriminate H]].
    destruct (re_ok orc pat s); [split; reflexivity|].
    split; intros H; [exfalso; revert H; apply msg_nonempty | discriminate H].
  Qed.
End Re.

Theorem re_rule_from_source (orc : oracles) (U : val -> str) (FE : str -> str -> ftext -> str) (ST : str -> str) vn obj field v :
  forallb (fun c => N.ltb c 256) vn = true ->
  run_rule orc U FE ST fn_Re vn obj field v = Some (re_text orc FE vn obj field v).
Proof. apply re_from_source. Qed.

Theorem re_rule_writes_iff_clause (orc : oracles) (U : val -> str) (FE : str -> str -> ftext -> str) (ST : str -> str) :
  (forall o f t, FE o f t <> []) -> forall vn obj field v, forallb (fun c => N.ltb c 256) vn = true ->
  (run_rule orc U FE ST fn_Re vn obj field v = Some [] <-> rRe orc vn obj field v = []).
Proof.
  intros Hne vn obj field v Hb. rewrite (re_from_source orc U FE ST vn obj field v Hb).
  split; [intros H; inversion H as [H1]; apply (re_decides orc FE Hne); exact H1 | intros H; f_equal; apply (re_decides orc FE Hne); exact H].
Qed.

