(* GoTimeFmtProofs.v — GetTimeFmt (valid/init.go) from the source text computes the model's get_time_fmt for every
   combination of the six format flags and every list of separators (none, one, two, three, more). *)
From Coq Require Import String.
From PGV Require Import Base.Bytes Base.GoStr Base.GoNum Base.Utf8 Base.MiniGo Regex.Re Regex.Rx.
From PGV Require Import Extracted.SourceConst Extracted.SourceRegex Extracted.SourceFnsTimeFmt.
From PGV Require Import Model.RuleText Model.Value Model.Clause Model.Rules Model.GoTimeFmt.
Open Scope Z_scope.

Definition mask6 (y mo d h mi s : bool) : Z :=
  Z.b2z y + 2 * Z.b2z mo + 4 * Z.b2z d + 8 * Z.b2z h + 16 * Z.b2z mi + 32 * Z.b2z s.

Lemma len4_ne {X} (a b c x : X) r k : k < 4 -> (Z.of_nat (List.length (a :: b :: c :: x :: r)) =? k) = false.
Proof. intros H. apply Z.eqb_neq. cbn [List.length]. lia. Qed.

(* the model's join with the association the Go expression old + split + join has *)
Definition join_fn_l (old split j : str) : str :=
  match old, j with [], _ => j | _, [] => old | _, _ => (old ++ split) ++ j end.
Lemma join_fn_l_eq old split j : join_fn_l old split j = join_fn old split j.
Proof. destruct old, j; cbn [join_fn_l join_fn]; try reflexivity. now rewrite <- app_assoc. Qed.
Definition get_time_fmt_l (mask : Z) (splits : list str) : str :=
  let d0 := s2b "-" in let d1 := s2b " " in let d2 := s2b ":" in
  let '(sd, sdt, st) := match splits with
                        | [a] => (a, d1, d2)
                        | [a; b] => (a, b, d2)
                        | [a; b; c] => (a, b, c)
                        | _ => (d0, d1, d2)
                        end in
  let bit n := Z.testbit mask n in
  let p0 := if bit 0 then join_fn_l [] sd (s2b "2006") else [] in
  let p1 := if bit 1 then join_fn_l p0 sd (s2b "01") else p0 in
  let p2 := if bit 2 then join_fn_l p1 sd (s2b "02") else p1 in
  let s0 := if bit 3 then join_fn_l [] st (s2b "15") else [] in
  let s1 := if bit 4 then join_fn_l s0 st (s2b "04") else s0 in
  let s2 := if bit 5 then join_fn_l s1 st (s2b "05") else s1 in
  join_fn_l p2 sdt s2.
Lemma get_time_fmt_l_eq mask splits : get_time_fmt_l mask splits = get_time_fmt mask splits.
Proof.
  unfold get_time_fmt_l, get_time_fmt.
  destruct splits as [|a [|b [|c [|x r]]]]; cbv zeta; now rewrite !join_fn_l_eq.
Qed.

Ltac tstep :=
  lazy beta iota zeta delta
    [run_timefmt fexec fexec_list feval fset fempty fn_body fn_GetTimeFmt String.eqb Ascii.eqb Bool.eqb andb orb negb].

Ltac finish := vm_compute; reflexivity.

Theorem timefmt_from_source (y mo d h mi s : bool) (splits : list str) :
  run_timefmt fn_GetTimeFmt (mask6 y mo d h mi s) splits = Some (get_time_fmt (mask6 y mo d h mi s) splits).
Proof.
  rewrite <- get_time_fmt_l_eq.
  destruct splits as [|a [|b [|c [|x r]]]].
  1-4: destruct y, mo, d, h, mi, s; finish.
  tstep. rewrite !len4_ne by lia. destruct y, mo, d, h, mi, s; finish.
Qed.
