(* GoWalkUrl.v — VUrl.validate (valid/validurl.go) from the source text is the model's URL walker. *)
From Coq Require Import String.
From PGV Require Import Base.Bytes Base.GoStr Base.GoNum Base.Utf8 Base.Url Base.MiniGo.
From PGV Require Import Extracted.SourceConst Extracted.SourceTable Extracted.SourceFnsWalk.
From PGV Require Import Model.RuleText Model.Value Model.Clause Model.Rules Model.Walk Model.GoWalk Proofs.GoWalkProofs.
Open Scope Z_scope.

(* evaluation without integer arithmetic: what depends on a length or an index is rewritten by the lemmas below *)
Ltac ustep :=
  lazy beta iota zeta delta
    [run_url_validate flow_res base_env
     wexec wexec_list weval wcall wbind wget wupd wdecl pop_to open_scope decl_strings
     weq wnot first_abort strs_of clause_of_join member_of kv_get of_res_bool of_res_z range_loop iter_loop
     norm_iter lift is_ferr of_reg get_fn_pair
     fn_body fn_VUrl_validate
     String.eqb Ascii.eqb Bool.eqb andb orb negb fst snd option_map List.map existsb last nth_error nth
     not_exist_text no_support_text mark_clause req_body body_of s2b app Bytes.bind Ascii.N_of_ascii Ascii.N_of_digits
     N.add N.mul N.double N.succ_double Pos.mul Pos.add Pos.succ gkey DQ QMARK AMP EQS].

Lemma of_nat_ne_m1 n : (Z.of_nat n =? - (1)) = false.
Proof. apply Z.eqb_neq. lia. Qed.
Lemma index_bound (ch : byte) (s : str) i : index [ch] s = Some i -> (i + 1 <= List.length s)%nat.
Proof.
  revert i. induction s as [|x s IH]; intros i; cbn [index]; [cbn [has_prefix]; discriminate|].
  destruct (has_prefix (x :: s) [ch]).
  - intros H. injection H as Hi. rewrite <- Hi. cbn [List.length]. lia.
  - destruct (index [ch] s) as [n|]; cbn [option_map]; [|discriminate]. intros H; injection H as Hi; rewrite <- Hi.
    specialize (IH n eq_refl). cbn [List.length]. lia.
Qed.

Definition url_param_step (c : cfg) (rules : rm) (q : str) (b : buf) : res buf :=
  let kv := split q EQS in
  let key := nth 0 kv [] in let v := nth 1 kv [] in
  match rm_get rules key with
  | [] => Ok b
  | vns => url_rules c key v (names_split COMMA vns) b
  end.
Lemma url_params_fold c rules l b : url_params c rules l b = fold_res (url_param_step c rules) l b.
Proof.
  revert b. induction l as [|x r IH]; intros b; cbn [url_params fold_res]; [reflexivity|].
  unfold url_param_step at 1. destruct (rm_get rules (nth 0 (split x EQS) [])); cbn [bind]; [apply IH|].
  destruct (url_rules _ _ _ _ _); cbn [bind]; auto.
Qed.

(* what VUrl.validate does to the buffer *)
Definition url_validate_m (c : cfg) (rules : rm) (value : str) (b : buf) : res buf :=
  match query_unescape value with
  | inr bad => Ok (put b [CField [] [] (FKnown (s2b "url unescape is failed, err: invalid URL escape """ ++ bad ++ [DQ]))])
  | inl dec =>
    let query := match index QMARK dec with Some i => skipn (i + 1) dec | None => [] end in
    match query with
    | [] => Ok b
    | _ => url_params c rules (split query AMP) b
    end
  end.

Section Walk.
  Variable c : cfg.
  Variable rules : rm.

  Lemma lt0_len {A} (x : A) l : (0 <? Z.of_nat (List.length (x :: l))) = true.
  Proof. apply Z.ltb_lt. cbn [List.length]. lia. Qed.
  Lemma lt1_len {A} (x y : A) l : (1 <? Z.of_nat (List.length (x :: y :: l))) = true.
  Proof. apply Z.ltb_lt. cbn [List.length]. lia. Qed.

  Theorem url_validate_from_source value b :
    run_url_validate c rules fn_VUrl_validate value b = Some (url_validate_m c rules value b).
  Proof.
    unfold url_validate_m, run_url_validate. lazy beta iota delta [fn_body fn_VUrl_validate].
    match goal with |- context[SRange ?k ?v ?d ?coll ?body] =>
      match body with context[SRange _ _ _ _ _] => set (BODY := body) end end.
    Time ustep.
    destruct (query_unescape value) as [dec|bad]; ustep; [|same].
    destruct (index [63%N] dec) as [i|] eqn:Ei; ustep.
    2: { change (-1 =? - (1)) with true. ustep. change (str_eqb [] []) with true. ustep. same. }
    rewrite of_nat_ne_m1. ustep.
    pose proof (index_bound _ _ _ Ei) as Hi.
    replace (0 <=? Z.of_nat i + 1) with true by (symmetry; apply Z.leb_le; lia).
    replace (Z.of_nat i + 1 <=? Z.of_nat (List.length dec)) with true by (symmetry; apply Z.leb_le; lia).
    replace (Z.to_nat (Z.of_nat i + 1)) with (i + 1)%nat by lia.
    ustep.
    destruct (skipn (i + 1) dec) as [|q0 qr]; [change (str_eqb [] []) with true; ustep; same|].
    change (str_eqb (q0 :: qr) []) with false. ustep.
    rewrite url_params_fold.
    match goal with |- context[gen_loop ?iter ?l ?e ?b0] => set (IT := iter);
      match e with (?kv :: ?kk :: ?tl) => set (TL := tl) end end.
    pose (E := fun kv : str * str => ("val"%string, WS (snd kv)) :: ("key"%string, WS (fst kv)) :: TL).
    assert (H : forall (i : str * str) q b0, norm_iter (IT q (E i) b0) =
                  lift (E ((fun _ q => (nth 0 (split q EQS) [], nth 1 (split q EQS) [])) i q)) (url_param_step c rules q b0)).
    { intros [k0 v0] q b1. unfold url_param_step. subst IT E TL BODY. cbv beta.
      match goal with |- context[SRange ?k ?v ?d ?coll ?body] => set (BODY2 := body) end.
      Time ustep.
      destruct (split q [61%N]) as [|kk [|vv rest]].
      all: try change (0 <? Z.of_nat (@List.length str [])) with false; try change (1 <? Z.of_nat (@List.length str [])) with false;
           try change (1 <? Z.of_nat (List.length [kk])) with false; try change (0 <? Z.of_nat (List.length [kk])) with true;
           rewrite ?lt0_len, ?lt1_len; change (Z.to_nat 0) with O; change (Z.to_nat 1) with 1%nat; ustep.
      all: match goal with |- context[rm_get rules ?k] => destruct (rm_get rules k) as [|r0 rr] end;
           [change (str_eqb [] []) with true; ustep; same|change (str_eqb (r0 :: rr) []) with false; ustep].
      all: rewrite url_rules_fold.
      all: match goal with |- context[gen_loop ?iter ?l ?e ?b0] => set (IT2 := iter); set (EN2 := e) end.
      all: match goal with |- context[fold_res (url_rule c ?key ?vl)] =>
             assert (H2 : forall (i : unit) x b0, norm_iter (IT2 x ((fun _ : unit => EN2) i) b0) =
                            lift ((fun _ : unit => EN2) ((fun i _ => i) i x)) (url_rule c key vl x b0)) end.
      1, 3, 5: intros _ x b0; unfold url_rule; subst IT2 EN2 BODY2; cbv beta;
        (destruct x as [|x0 xr]; [ustep; change (str_eqb [] []) with true; ustep; same|]);
        cbv iota; assert (Hne : str_eqb (x0 :: xr) [] = false) by reflexivity;
        revert Hne; generalize (x0 :: xr); clear x0 xr; intros vn Hne;
        ustep; rewrite Hne; ustep;
        (destruct (get_fn c (pk_key vn)) as [| |f|t]; ustep; [same| | |]);
        [ destruct (str_eqb (pk_key vn) Required); ustep;
          [ try change (str_eqb [] []) with true; ustep;
            try (destruct vv as [|w0 wr]; [change (str_eqb [] []) with true|change (str_eqb (w0 :: wr) []) with false]; ustep);
            try same;
            (destruct (pk_msg vn) as [|m0 mr]; [change (str_eqb [] []) with true|change (str_eqb (m0 :: mr) []) with false]; ustep; same)
          | destruct (str_eqb (pk_key vn) Either); ustep; [same|];
            destruct (str_eqb (pk_key vn) BothEq); ustep; same ]
        | try change (str_eqb [] []) with true; ustep;
          try (destruct vv as [|w0 wr]; [change (str_eqb [] []) with true|change (str_eqb (w0 :: wr) []) with false]; ustep); same
        | try change (str_eqb [] []) with true; ustep;
          try (destruct vv as [|w0 wr]; [change (str_eqb [] []) with true|change (str_eqb (w0 :: wr) []) with false]; ustep); same ].
      all: rewrite (gen_loop_fold (fun _ : unit => EN2) (fun i _ => i) _ IT2 H2 _ tt).
      all: match goal with |- context[fold_res ?F ?l ?b0] => destruct (fold_res F l b0) end; subst EN2; ustep; same. }
    change (("val"%string, WS []) :: ("key"%string, WS []) :: TL) with (E ([], [])).
    rewrite (gen_loop_fold E _ _ IT H _ ([], [])).
    destruct (fold_res (url_param_step c rules) (split (q0 :: qr) [38%N]) b); subst E TL; ustep; same.
  Qed.
End Walk.
