(* GoDatetimeProofs.v — Datetime (valid/validfn.go) from the source text: up to three separators from the comma list of
   the rule's value (protecting quotes stripped) replace "-", " ", ":" in order — a fourth and later ones are ignored —,
   the layout is GetTimeFmt(DateTimeFmt, separators...), time.Parse decides (oracle), and the default wording spells an
   example with the separators in use.  The loop by induction. *)
From Coq Require Import String.
From PGV Require Import Base.Bytes Base.GoStr Base.GoNum Base.Utf8 Base.MiniGo Regex.Re Regex.Rx.
From PGV Require Import Extracted.SourceConst Extracted.SourceRegex Extracted.SourceFnsInts.
From PGV Require Import Model.RuleText Model.Value Model.Clause Model.Rules Model.GoRule Proofs.GoFmtProofs Proofs.GoUniqueProofs.
Open Scope Z_scope.

Fixpoint overlay (k : nat) (ps d : list str) : list str :=
  match ps with
  | [] => d
  | p :: r => if Nat.leb 3 k then d else overlay (S k) r (set_nth k p d)
  end.

Definition not_dtloop (x : string) : Prop :=
  String.eqb x "defaultSplit" = false /\ String.eqb x "split" = false /\ String.eqb x "i" = false.

Lemma set_nth_length {X} (l : list X) : forall n x, List.length (set_nth n x l) = List.length l.
Proof. induction l as [|a l IH]; intros [|n] x; cbn; auto. Qed.

Lemma dt_loop (body : Z -> str -> renv -> rflow) :
  (forall k p e0 d, e0 "defaultSplit"%string = RL d -> List.length d = 3%nat -> e0 "len"%string = RBad ->
     body (Z.of_nat k) p e0 =
       if Nat.leb 3 k then RBrk (rset "split" (RS p) (rset "i" (RZ (Z.of_nat k)) e0))
       else RNext (rset "defaultSplit" (RL (set_nth k p d)) (rset "split" (RS p) (rset "i" (RZ (Z.of_nat k)) e0)))) ->
  forall ps k e d, e "defaultSplit"%string = RL d -> List.length d = 3%nat -> e "len"%string = RBad ->
  exists e', range_brk ps (Z.of_nat k) body e = RNext e' /\ e' "defaultSplit"%string = RL (overlay k ps d) /\
             (forall x, not_dtloop x -> e' x = e x).
Proof.
  intros Hb. induction ps as [|p r IH]; intros k e d Hd Hl Hlen; cbn [range_brk overlay].
  - exists e. auto.
  - rewrite (Hb k p e d Hd Hl Hlen). destruct (Nat.leb 3 k).
    + eexists. split; [reflexivity|]. split; [unfold rset; cbn; exact Hd|].
      intros x (H1 & H2 & H3). unfold rset. rewrite H2, H3. reflexivity.
    + replace (Z.of_nat k + 1) with (Z.of_nat (S k)) by lia.
      destruct (IH (S k) (rset "defaultSplit" (RL (set_nth k p d)) (rset "split" (RS p) (rset "i" (RZ (Z.of_nat k)) e)))
                  (set_nth k p d) eq_refl ltac:(rewrite set_nth_length; exact Hl) Hlen) as (e' & He' & Hd' & Hag).
      exists e'. split; [exact He'|]. split; [exact Hd'|].
      intros x Hx. rewrite (Hag x Hx). destruct Hx as (H1 & H2 & H3). unfold rset. rewrite H1, H2, H3. reflexivity.
Qed.

Lemma overlay_three ps a b c : overlay 0 ps [a; b; c] = [nth 0 ps a; nth 1 ps b; nth 2 ps c].
Proof. destruct ps as [|p0 [|p1 [|p2 [|p3 r]]]]; reflexivity. Qed.

Lemma geb_nat k : (3 <=? Z.of_nat k) = Nat.leb 3 k.
Proof. destruct (Nat.leb_spec 3 k); [apply Z.leb_le|apply Z.leb_gt]; lia. Qed.

Section Datetime.
  Variable orc : oracles.
  Variable U : val -> str.
  Variable FE : str -> str -> ftext -> str.
  Variable ST : str -> str.

  Definition dt_example (sp : list str) : str :=
    let s0 := nth 0 sp [] in let s1 := nth 1 sp [] in let s2 := nth 2 sp [] in
    s2b "it is not datetime, eg: 1996" ++ s0 ++ s2b "09" ++ s0 ++ s2b "28" ++ s1 ++ s2b "23" ++ s2 ++ s2b "00" ++ s2 ++ s2b "00".

  Definition datetime_text (vn obj field : str) (v : val) : str :=
    match v with
    | VStr s =>
      let sp := datetime_splits vn in
      if time_ok orc (get_time_fmt 63 sp) s then [] else msg_text (dt_example sp) vn obj field s
    | _ => join_valid_err obj field (value_string v) [ExplainEn; MUST_STR]
    end.

  Ltac dstep :=
    lazy beta iota zeta delta
      [run_rule rexec rexec_list reval rcall bind strs rset rempty fn_body check_str_err rkind kind_is
       fn_Datetime sprintf_s option_map
       width_name String.append String.eqb Ascii.eqb Bool.eqb andb orb negb fst snd];
    cbn [str_eqb value_string Z.leb Z.ltb Z.compare List.length Z.of_nat Pos.of_succ_nat Pos.succ Pos.compare Pos.compare_cont].

  Theorem datetime_from_source vn obj field v : run_rule orc U FE ST fn_Datetime vn obj field v = Some (datetime_text vn obj field v).
  Proof.
    unfold datetime_text, datetime_splits, COMMA, QUOTE.
    destruct v as [| | [] | [] | [] | | | | | | | | | |]; dstep; try reflexivity.
    change (s2b "-") with [45%N]; change (s2b " ") with [32%N]; change (s2b ":") with [58%N].
    destruct (pk_val vn) as [|c0 vr] eqn:Ev; dstep.
    - (* no value: the default separators *)
      unfold DateTimeFmt, dt_example; cbn [nth].
      match goal with |- context[time_ok orc ?l ?x] => destruct (time_ok orc l x) end; dstep; try reflexivity.
      unfold msg_text; destruct (pk_msg vn) as [|c1 m1]; dstep; cbn [app]; rewrite <- ?app_assoc; reflexivity.
    - (* a value: the loop over its comma list *)
      rewrite split_single.
      match goal with |- context[range_brk ?ps 0 ?body ?e] =>
        set (PS := ps); set (BODY := body); set (E := e);
        assert (Hbody : forall k p e0 d, e0 "defaultSplit"%string = RL d -> List.length d = 3%nat -> e0 "len"%string = RBad ->
                  BODY (Z.of_nat k) p e0 =
                    if Nat.leb 3 k then RBrk (rset "split" (RS p) (rset "i" (RZ (Z.of_nat k)) e0))
                    else RNext (rset "defaultSplit" (RL (set_nth k p d)) (rset "split" (RS p) (rset "i" (RZ (Z.of_nat k)) e0))))
      end.
      { intros k p e0 d Hd Hl Hlen. unfold BODY. dstep. rewrite Hlen, Hd. dstep. rewrite Hl. cbn [Z.of_nat Pos.of_succ_nat Pos.succ].
        rewrite geb_nat. destruct (Nat.leb_spec 3 k) as [Hge|Hlt]; dstep; try reflexivity.
        rewrite Hd. dstep. rewrite Hl, nat_leb0. cbn [Z.of_nat Pos.of_succ_nat Pos.succ andb].
        replace (Z.of_nat k <? 3) with true by (symmetry; apply Z.ltb_lt; lia). rewrite Nat2Z.id. reflexivity. }
      destruct (dt_loop BODY Hbody PS 0%nat E _ eq_refl eq_refl eq_refl) as (e' & He' & Hd' & Hag).
      change (Z.of_nat 0) with 0 in He'. rewrite He'. clear He' Hbody. rewrite overlay_three in Hd'. cbn [nth] in Hd'.
      assert (A1 : e' "cusMsg"%string = E "cusMsg"%string) by (apply Hag; repeat split; reflexivity).
      assert (A2 : e' "objName"%string = E "objName"%string) by (apply Hag; repeat split; reflexivity).
      assert (A3 : e' "fieldName"%string = E "fieldName"%string) by (apply Hag; repeat split; reflexivity).
      assert (A4 : e' "errBuf"%string = E "errBuf"%string) by (apply Hag; repeat split; reflexivity).
      assert (A5 : e' "ExplainEn"%string = E "ExplainEn"%string) by (apply Hag; repeat split; reflexivity).
      assert (A6 : e' "GetJoinValidErrStr"%string = E "GetJoinValidErrStr"%string) by (apply Hag; repeat split; reflexivity).
      assert (A7 : e' "tv"%string = E "tv"%string) by (apply Hag; repeat split; reflexivity).
      assert (A8 : e' "GetTimeFmt"%string = E "GetTimeFmt"%string) by (apply Hag; repeat split; reflexivity).
      assert (A9 : e' "DateTimeFmt"%string = E "DateTimeFmt"%string) by (apply Hag; repeat split; reflexivity).
      unfold E in A1, A2, A3, A4, A5, A6, A7, A8, A9.
      lazy beta iota zeta delta [String.eqb Ascii.eqb Bool.eqb] in A1, A2, A3, A4, A5, A6, A7, A8, A9.
      clear Hag. clearbody E BODY. clear E BODY.
      repeat (dstep; rewrite ?Hd', ?A1, ?A2, ?A3, ?A4, ?A5, ?A6, ?A7, ?A8, ?A9).
      unfold DateTimeFmt, dt_example. fold PS. cbn [nth].
      match goal with |- context[time_ok orc ?l ?x] => destruct (time_ok orc l x) end;
        repeat (dstep; rewrite ?Hd', ?A1, ?A2, ?A3, ?A4, ?A5, ?A6, ?A7, ?A8, ?A9); try reflexivity.
      unfold msg_text; destruct (pk_msg vn) as [|c1 m1];
        repeat (dstep; rewrite ?Hd', ?A1, ?A2, ?A3, ?A4, ?A5, ?A6, ?A7, ?A8, ?A9); cbn [app]; rewrite <- ?app_assoc; try reflexivity.
  Qed.

  Theorem datetime_decides vn obj field v : datetime_text vn obj field v = [] <-> rDatetime orc vn obj field v = [].
  Proof.
    unfold datetime_text, rDatetime, str_rule, check_is_str.
    destruct v; try (split; intros H; [exfalso; revert H; apply jve_nonempty | discriminate H]).
    cbn [str_of]. destruct (time_ok orc _ s); [split; reflexivity|].
    split; intros H; [exfalso; revert H; apply msg_nonempty | discriminate H].
  Qed.
End Datetime.

Theorem datetime_rule_from_source (orc : oracles) (U : val -> str) (FE : str -> str -> ftext -> str) (ST : str -> str) vn obj field v :
  run_rule orc U FE ST fn_Datetime vn obj field v = Some (datetime_text orc vn obj field v) /\
  (run_rule orc U FE ST fn_Datetime vn obj field v = Some [] <-> rDatetime orc vn obj field v = []).
Proof.
  split; [apply datetime_from_source|]. rewrite datetime_from_source.
  split; [intros H; inversion H as [H1]; apply datetime_decides; exact H1 | intros H; f_equal; apply datetime_decides; exact H].
Qed.
