(* GoIntsProofs.v — Ints (valid/validfn.go) from the source text: a string is split on the rule's separator (protecting
   quotes stripped, a comma by default) and every part must be a number; the elements of a slice or array are rendered by
   ToStr and must all be numbers; an integer kind passes; anything else is a rule-writing error.  Both loops by
   induction.  It writes nothing exactly when the model's rInts reports no clause. *)
From Coq Require Import String.
From PGV Require Import Base.Bytes Base.GoStr Base.GoNum Base.Utf8 Base.MiniGo Regex.Re Regex.Rx.
From PGV Require Import Extracted.SourceConst Extracted.SourceRegex Extracted.SourceFnsInts.
From PGV Require Import Model.RuleText Model.Value Model.Clause Model.Rules Model.GoRule Proofs.GoFmtProofs.
Open Scope Z_scope.

Definition isep (vn : str) : str := match trim [QUOTE] (pk_val vn) with [] => [COMMA] | x => x end.
Definition istep (acc v : str) : str := if str_eqb acc [91%N] then acc ++ v else acc ++ [44; 32]%N ++ v.
Definition ints_echo (strs : list str) : str := fold_left istep strs [91%N] ++ [93%N].
Definition isnum (s : str) : bool := match_string (pats IntRe) s.

Definition not_strloop (x : string) : Prop := String.eqb x "is" = false /\ String.eqb x "v" = false /\ String.eqb x "_" = false.

(* the loop over the parts of a string: stops at the first part that is no number *)
Lemma ints_str_loop (body : Z -> str -> renv -> rflow) :
  (forall idx c e0, body idx c e0 =
     if isnum c then RNext (rset "is" (RB true) (rset "v" (RS c) (rset "_" (RZ idx) e0)))
     else RBrk (rset "is" (RB false) (rset "v" (RS c) (rset "_" (RZ idx) e0)))) ->
  forall parts idx e, e "is"%string = RB true ->
  exists e', range_brk parts idx body e = RNext e' /\ e' "is"%string = RB (forallb isnum parts) /\
             (forall x, not_strloop x -> e' x = e x).
Proof.
  intros Hb. induction parts as [|c r IH]; intros idx e His; cbn [range_brk forallb].
  - exists e. auto.
  - rewrite Hb. destruct (isnum c); cbn [andb].
    + destruct (IH (idx + 1) (rset "is" (RB true) (rset "v" (RS c) (rset "_" (RZ idx) e))) eq_refl) as (e' & He' & Hi & Hag).
      exists e'. split; [exact He'|]. split; [exact Hi|].
      intros x Hx. rewrite (Hag x Hx). destruct Hx as (H1 & H2 & H3). unfold rset. rewrite H1, H2, H3. reflexivity.
    + eexists. split; [reflexivity|]. split; [reflexivity|].
      intros x (H1 & H2 & H3). unfold rset. rewrite H1, H2, H3. reflexivity.
Qed.

Definition not_slloop (x : string) : Prop :=
  String.eqb x "is" = false /\ String.eqb x "v" = false /\ String.eqb x "i" = false /\
  String.eqb x "tmpIs" = false /\ String.eqb x "valStr" = false.

(* the loop over the elements of a slice or array: every element is looked at, the echo grows *)
Lemma ints_slice_loop (vs : list val) (body : renv -> rflow) (Inv : renv -> Prop) :
  (forall k xv e0 b acc, nth_error vs k = Some xv -> Inv e0 ->
     e0 "i"%string = RZ (Z.of_nat k) -> e0 "is"%string = RB b -> e0 "valStr"%string = RS acc ->
     exists e1, body e0 = RNext e1 /\ Inv e1 /\ e1 "is"%string = RB (b && isnum (to_str xv)) /\
                e1 "valStr"%string = RS (istep acc (to_str xv)) /\ (forall x, not_slloop x -> e1 x = e0 x)) ->
  (forall e0 z, Inv e0 -> Inv (rset "i" (RZ z) e0)) ->
  forall n k e b acc, (k + n = List.length vs)%nat -> Inv e -> e "is"%string = RB b -> e "valStr"%string = RS acc ->
  exists e', counted_loop n (Z.of_nat k) "i" body e = RNext e' /\
             e' "is"%string = RB (b && forallb isnum (map to_str (skipn k vs))) /\
             e' "valStr"%string = RS (fold_left istep (map to_str (skipn k vs)) acc) /\
             (forall x, not_slloop x -> e' x = e x).
Proof.
  intros Hb Hi. induction n as [|n IH]; intros k e b acc Hlen Hinv His Hval; cbn [counted_loop].
  - eexists. split; [reflexivity|]. rewrite skipn_all2 by lia. cbn [map forallb fold_left]. rewrite andb_true_r.
    repeat split; try (unfold rset; cbn; assumption).
    intros x (H1 & H2 & H3 & H4 & H5). unfold rset. rewrite H3. reflexivity.
  - destruct (nth_error vs k) as [xv|] eqn:En; [|apply nth_error_None in En; lia].
    destruct (Hb k xv (rset "i" (RZ (Z.of_nat k)) e) b acc En (Hi _ _ Hinv) eq_refl His Hval) as (e1 & Hb1 & Hinv1 & His1 & Hval1 & Hag1).
    rewrite Hb1. replace (Z.of_nat k + 1) with (Z.of_nat (S k)) by lia.
    destruct (IH (S k) e1 _ _ ltac:(lia) Hinv1 His1 Hval1) as (e' & He' & His' & Hval' & Hag').
    exists e'. split; [exact He'|].
    assert (Hsk : skipn k vs = xv :: skipn (S k) vs).
    { clear - En. revert k En. induction vs as [|a vs IHv]; intros [|k] En; cbn in *; try discriminate.
      - inversion En; reflexivity.
      - apply IHv. exact En. }
    rewrite Hsk. cbn [map forallb fold_left]. rewrite andb_assoc. split; [exact His'|]. split; [exact Hval'|].
    intros x Hx. rewrite (Hag' x Hx), (Hag1 x Hx). destruct Hx as (H1 & H2 & H3 & H4 & H5). unfold rset. rewrite H3. reflexivity.
Qed.

Lemma nat_leb0 n : (0 <=? Z.of_nat n) = true.
Proof. apply Z.leb_le. lia. Qed.

Section Ints.
  Variable orc : oracles.
  Variable U : val -> str.
  Variable FE : str -> str -> ftext -> str.
  Variable ST : str -> str.

  Definition ints_text (vn obj field : str) (v : val) : str :=
    match v with
    | VStr s =>
      if forallb isnum (split s (isep vn)) then []
      else msg_text (s2b "it is not separated by """ ++ isep vn ++ s2b """" ++ s2b " num") vn obj field s
    | VSlice _ _ _ _ | VArray _ _ _ =>
      let strs := map to_str (elems_of v) in
      if forallb isnum strs then [] else msg_text (s2b "slice/array element is not all num") vn obj field (ints_echo strs)
    | _ => if is_num_kind (kind v) false then [] else FE obj field (FRuleErr (s2b "ints"))
    end.

  Ltac nstep :=
    lazy beta iota zeta delta
      [run_rule rexec rexec_list reval rcall bind strs rset rempty fn_body check_str_err rkind kind_is kind_name_is_int existsb
       fn_Ints assigns assigns_any
       width_name String.append String.eqb Ascii.eqb Bool.eqb andb orb negb fst snd];
    cbn [str_eqb value_string kind is_num_kind Z.leb Z.compare].

  Theorem ints_from_source vn obj field v : run_rule orc U FE ST fn_Ints vn obj field v = Some (ints_text vn obj field v).
  Proof.
    unfold ints_text, isep, QUOTE, COMMA. nstep.
    destruct (trim [39%N] (pk_val vn)) as [|s0 sr] eqn:Esp; nstep;
      destruct v as [| | [] | [] | [] | | | | | | | | | |]; nstep; try reflexivity.
    (* a string: the loop over its parts *)
    all: try match goal with |- context[range_brk ?parts ?i ?body ?e] =>
           assert (Hbody : forall idx c e0, body idx c e0 =
                     if isnum c then RNext (rset "is" (RB true) (rset "v" (RS c) (rset "_" (RZ idx) e0)))
                     else RBrk (rset "is" (RB false) (rset "v" (RS c) (rset "_" (RZ idx) e0))))
             by (intros idx c e0; unfold isnum; nstep; destruct (match_string (pats IntRe) c); nstep; reflexivity);
           destruct (ints_str_loop body Hbody parts i e eq_refl) as (e' & He' & His & Hag);
           rewrite He'; clear He' Hbody;
           repeat (nstep; rewrite ?His, ?Hag by (repeat split; reflexivity));
           destruct (forallb isnum parts); repeat (nstep; rewrite ?His, ?Hag by (repeat split; reflexivity)); try reflexivity;
           unfold msg_text; destruct (pk_msg vn) as [|c0 m0];
           repeat (nstep; rewrite ?His, ?Hag by (repeat split; reflexivity));
           cbn [app]; rewrite <- ?app_assoc; try reflexivity
         end.
    (* a slice or an array: the counted loop over its elements *)
    all: rewrite ?nat_leb0; nstep; rewrite ?Nat2Z.id.
    all: match goal with |- context[counted_loop ?n 0 "i"%string ?body ?e] =>
           match goal with |- context[VSlice ?a ?b ?c ?l] => set (V := VSlice a b c l) in *; set (VS := l) in * | |- context[VArray ?a ?b ?l] => set (V := VArray a b l) in *; set (VS := l) in * end;
           set (BODY := body);
           assert (Hbody : forall k xv e0 b acc, nth_error VS k = Some xv -> (e0 "tv"%string = RVal V /\ e0 "ToStr"%string = RBad) ->
                     e0 "i"%string = RZ (Z.of_nat k) -> e0 "is"%string = RB b -> e0 "valStr"%string = RS acc ->
                     exists e1, BODY e0 = RNext e1 /\ (e1 "tv"%string = RVal V /\ e1 "ToStr"%string = RBad) /\ e1 "is"%string = RB (b && isnum (to_str xv)) /\
                                e1 "valStr"%string = RS (istep acc (to_str xv)) /\ (forall x, not_slloop x -> e1 x = e0 x))
         end.
    (* the body: one element *)
    1, 3, 5, 7: (intros k xv e0 b acc Hn (Htv & Hts) Hi His Hval; unfold BODY, isnum, istep;
      repeat (nstep; rewrite ?Htv, ?Hts, ?Hi, ?His, ?Hval, ?nat_leb0, ?Nat2Z.id; subst V; cbn [elems_of]; fold VS; rewrite ?Hn);
      destruct (match_string (pats IntRe) (to_str xv));
      repeat (nstep; rewrite ?Htv, ?Hts, ?Hi, ?His, ?Hval);
      destruct (str_eqb acc [91%N]);
      repeat (nstep; rewrite ?Htv, ?Hts, ?Hi, ?His, ?Hval);
      (eexists; split; [reflexivity|]);
      (split; [split; lazy beta iota zeta delta [rset String.eqb Ascii.eqb Bool.eqb]; assumption|]);
      (split; [lazy beta iota zeta delta [rset String.eqb Ascii.eqb Bool.eqb]; rewrite ?His; destruct b; reflexivity|]);
      (split; [lazy beta iota zeta delta [rset String.eqb Ascii.eqb Bool.eqb]; reflexivity|]);
      intros x (H1 & H2 & H3 & H4 & H5);
      lazy beta iota zeta delta [rset String.eqb Ascii.eqb Bool.eqb] in H1, H2, H3, H4, H5 |- *;
      rewrite ?H1, ?H2, ?H3, ?H4, ?H5; reflexivity).
    all: match goal with |- context[counted_loop ?n 0 "i"%string ?bd ?e] =>
           set (E := e);
           assert (Hpres : forall e0 z, (e0 "tv"%string = RVal V /\ e0 "ToStr"%string = RBad) ->
                     (rset "i" (RZ z) e0 "tv"%string = RVal V /\ rset "i" (RZ z) e0 "ToStr"%string = RBad))
             by (intros e0 z (A & B); split; assumption);
           assert (HinvE : E "tv"%string = RVal V /\ E "ToStr"%string = RBad) by (split; reflexivity);
           destruct (ints_slice_loop VS bd (fun e0 => e0 "tv"%string = RVal V /\ e0 "ToStr"%string = RBad) Hbody Hpres
                       n 0%nat E true [91%N] eq_refl HinvE eq_refl eq_refl) as (e' & He' & His' & Hval' & Hag')
         end.
    all: change (Z.of_nat 0) with 0 in He'; rewrite He'; clear He' Hbody; cbn [skipn andb] in His', Hval';
         assert (A1 : e' "cusMsg"%string = E "cusMsg"%string) by (apply Hag'; repeat split; reflexivity);
         assert (A2 : e' "objName"%string = E "objName"%string) by (apply Hag'; repeat split; reflexivity);
         assert (A3 : e' "fieldName"%string = E "fieldName"%string) by (apply Hag'; repeat split; reflexivity);
         assert (A4 : e' "errBuf"%string = E "errBuf"%string) by (apply Hag'; repeat split; reflexivity);
         assert (A5 : e' "ExplainEn"%string = E "ExplainEn"%string) by (apply Hag'; repeat split; reflexivity);
         assert (A6 : e' "GetJoinValidErrStr"%string = E "GetJoinValidErrStr"%string) by (apply Hag'; repeat split; reflexivity);
         unfold E in A1, A2, A3, A4, A5, A6; lazy beta iota zeta delta [String.eqb Ascii.eqb Bool.eqb] in A1, A2, A3, A4, A5, A6;
         clear Hag'.
    all: subst V; cbn [elems_of]; fold VS;
         repeat (nstep; rewrite ?His', ?Hval', ?A1, ?A2, ?A3, ?A4, ?A5, ?A6).
    all: destruct (forallb isnum (map to_str VS)); repeat (nstep; rewrite ?His', ?Hval', ?A1, ?A2, ?A3, ?A4, ?A5, ?A6); try reflexivity.
    all: unfold msg_text, ints_echo; destruct (pk_msg vn) as [|c0 m0];
         repeat (nstep; rewrite ?His', ?Hval', ?A1, ?A2, ?A3, ?A4, ?A5, ?A6); try reflexivity.
  Qed.

  (* the verdict of the model's rInts is the verdict of the source text *)
  Hypothesis FE_nonempty : forall o f t, FE o f t <> [].

  Theorem ints_decides vn obj field v : ints_text vn obj field v = [] <-> rInts vn obj field v = [].
  Proof.
    unfold ints_text, rInts, isnum. fold (isep vn).
    destruct v; cbn [elems_of kind is_num_kind];
      try (split; intros H; try reflexivity; try discriminate H; exfalso; revert H; apply FE_nonempty).
    all: match goal with |- context[forallb ?f ?l] => destruct (forallb f l) end;
         split; intros H; try reflexivity; try discriminate H; exfalso; revert H; apply msg_nonempty.
  Qed.
End Ints.

Theorem ints_rule_from_source (orc : oracles) (U : val -> str) (FE : str -> str -> ftext -> str) (ST : str -> str) vn obj field v :
  run_rule orc U FE ST fn_Ints vn obj field v = Some (ints_text FE vn obj field v).
Proof. apply ints_from_source. Qed.

Theorem ints_rule_writes_iff_clause (orc : oracles) (U : val -> str) (FE : str -> str -> ftext -> str) (ST : str -> str) :
  (forall o f t, FE o f t <> []) -> forall vn obj field v,
  run_rule orc U FE ST fn_Ints vn obj field v = Some [] <-> rInts vn obj field v = [].
Proof.
  intros Hne vn obj field v. rewrite ints_from_source.
  split; [intros H; inversion H as [H1]; apply (ints_decides FE Hne); exact H1 | intros H; f_equal; apply (ints_decides FE Hne); exact H].
Qed.
