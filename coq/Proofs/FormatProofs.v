(* C05: the format and content rule functions write a clause exactly when the value lies outside
   the language of Spec/FormatSpec.v. *)
From PGV Require Import Base.Bytes Base.GoStr Base.GoNum Base.Utf8 Regex.Re Regex.Rx.
From PGV Require Import Extracted.SourceConst Extracted.SourceRegex.
From PGV Require Import Model.RuleText Model.Value Model.Clause Model.Rules Spec.FormatSpec.
From PGV Require Import Proofs.RegexProofs Proofs.RuleTextProofs.

Definition violated (cs : list clause) : bool := match cs with [] => false | _ => true end.

Lemma str_rule_verdict rule ok vn obj field s :
  violated (str_rule rule ok vn obj field (VStr s)) = negb (ok s) /\
  (length (str_rule rule ok vn obj field (VStr s)) <= 1)%nat.
Proof. unfold str_rule. cbn. destruct (ok s); cbn; auto. Qed.

(* ---- the repository's own regular expressions ---- *)
Theorem phone_rule vn obj field s :
  violated (rPhone vn obj field (VStr s)) = negb (phone_spec (decode s)).
Proof. unfold rPhone. rewrite (proj1 (str_rule_verdict _ _ vn obj field s)). now rewrite phone_re_spec. Qed.
Theorem email_rule vn obj field s :
  violated (rEmail vn obj field (VStr s)) = negb (email_spec (decode s)).
Proof. unfold rEmail. rewrite (proj1 (str_rule_verdict _ _ vn obj field s)). now rewrite email_re_spec. Qed.
Theorem idcard_rule vn obj field s :
  violated (rIDCard vn obj field (VStr s)) = negb (idcard_spec (decode s)).
Proof. unfold rIDCard. rewrite (proj1 (str_rule_verdict _ _ vn obj field s)). now rewrite idcard_re_spec. Qed.

Theorem int_rule vn obj field v b : in_language FInt v = Some b ->
  violated (rInt vn obj field v) = negb b.
Proof.
  intros H. destruct v; cbn [in_language is_int_kind is_float_kind] in H; inversion H; subst; try reflexivity.
  unfold rInt. rewrite int_re_spec. destruct (digits_spec (decode s)); reflexivity.
Qed.
Theorem float_rule vn obj field v b : in_language FFloat v = Some b ->
  violated (rFloat vn obj field v) = negb b.
Proof.
  intros H. destruct v; cbn [in_language is_int_kind is_float_kind] in H; inversion H; subst; try reflexivity.
  unfold rFloat. rewrite float_re_spec. destruct (float_spec (decode s)); reflexivity.
Qed.

(* ---- prefix / suffix: for every rule text whose (unquoted) value is p ---- *)
Theorem prefix_rule vn obj field s p : trim [QUOTE] (pk_val vn) = p ->
  violated (rPrefix vn obj field (VStr s)) = negb (has_prefix s p).
Proof. intros <-. unfold rPrefix. exact (proj1 (str_rule_verdict _ (fun s => has_prefix s (trim [QUOTE] (pk_val vn))) vn obj field s)). Qed.
Theorem suffix_rule vn obj field s p : trim [QUOTE] (pk_val vn) = p ->
  violated (rSuffix vn obj field (VStr s)) = negb (has_suffix s p).
Proof. intros <-. unfold rSuffix. exact (proj1 (str_rule_verdict _ (fun s => has_suffix s (trim [QUOTE] (pk_val vn))) vn obj field s)). Qed.

(* ---- ints ---- *)
Definition ints_sep (vn : str) : str := match trim [QUOTE] (pk_val vn) with [] => [COMMA] | x => x end.

Lemma forallb_int_re l : forallb (match_string (pats IntRe)) l = forallb (fun p => digits_spec (decode p)) l.
Proof. apply forallb_ext'. apply int_re_spec. Qed.

Theorem ints_rule vn obj field v b : in_language (FInts (ints_sep vn)) v = Some b ->
  violated (rInts vn obj field v) = negb b.
Proof.
  unfold rInts. fold (ints_sep vn). destruct v; cbn [in_language renderings is_int_kind kind is_num_kind];
    intros H; inversion H; subst; clear H; try reflexivity.
  - rewrite forallb_int_re. destruct (forallb _ _); reflexivity.
  - cbn [elems_of]. rewrite forallb_int_re.
    destruct (forallb _ _); reflexivity.
  - cbn [elems_of]. rewrite forallb_int_re.
    destruct (forallb _ _); reflexivity.
Qed.

(* ---- unique ---- *)
Lemma distinct_length l : (length (distinct l) <= length l)%nat.
Proof. induction l as [|x l IH]; cbn; [lia|]. destruct (existsb _ l); cbn; lia. Qed.

Lemma distinct_nodup l : Nat.eqb (length l) (length (distinct l)) = nodupb l.
Proof.
  induction l as [|x l IH]; [reflexivity|]. cbn [distinct nodupb length].
  destruct (existsb (str_eqb x) l); cbn [negb andb length].
  - pose proof (distinct_length l). apply Nat.eqb_neq. lia.
  - exact IH.
Qed.

Theorem unique_rule vn obj field v b : in_language FUnique v = Some b ->
  violated (rUnique vn obj field v) = negb b.
Proof.
  unfold rUnique. destruct v; cbn [in_language renderings]; intros H; inversion H; subst; clear H.
  - rewrite distinct_nodup. destruct (nodupb _); reflexivity.
  - cbn [elems_of].
    rewrite distinct_nodup. destruct (nodupb _); reflexivity.
  - cbn [elems_of].
    rewrite distinct_nodup. destruct (nodupb _); reflexivity.
Qed.

(* ---- in / include: for every rule text whose option list the code reads as opts ---- *)
Theorem in_rule vn obj field v opts b :
  pk_key vn <> s2b "include" -> in_opts (pk_val vn) = Some opts -> in_language (FIn opts) v = Some b ->
  violated (in_like vn obj field v) = negb b.
Proof.
  intros Hk Ho. unfold in_like. rewrite Ho.
  assert (Hi : str_eqb (pk_key vn) (s2b "include") = false).
  { destruct (str_eqb (pk_key vn) (s2b "include")) eqn:E; [|reflexivity]. apply str_eqb_eq in E. contradiction. }
  rewrite Hi.
  assert (Hgo : forall tv, violated (if existsb (fun o => str_eqb tv o) opts then []
                                     else [CValid obj field tv (body_of (pk_msg vn) (pk_key vn))])
                           = negb (existsb (str_eqb tv) opts)).
  { intros tv. destruct (existsb _ opts); reflexivity. }
  destruct v; cbn [in_language is_int_kind is_float_kind orb]; intros H; inversion H; subst; apply Hgo.
Qed.

Theorem include_rule vn obj field s opts :
  pk_key vn = s2b "include" -> in_opts (pk_val vn) = Some opts ->
  violated (in_like vn obj field (VStr s)) = negb (existsb (fun o => contains s o) opts).
Proof.
  intros Hk Ho. unfold in_like. rewrite Ho, Hk. cbn [str_eqb]. rewrite str_eqb_refl.
  destruct (existsb _ opts); reflexivity.
Qed.

(* the builder's text in=(o1/o2/...) is read back as the options, for options without quotes,
   slashes (which must be quoted: tested, not proved) and with at least one option *)
Lemma last_index_snoc c x : last_index_byte c (x ++ [c]) = Some (length x).
Proof.
  induction x as [|y x IH]; cbn; [now rewrite N.eqb_refl|]. rewrite IH. reflexivity.
Qed.

Lemma trim_noquote o : nomem QUOTE o = true -> trim [QUOTE] o = o.
Proof.
  intros H. unfold trim.
  assert (Ht : forall l, nomem QUOTE l = true -> trim_left [QUOTE] l = l).
  { intros l Hl. destruct l as [|c l]; [reflexivity|]. cbn in *. apply andb_prop in Hl as [Hc _].
    rewrite orb_false_r. destruct (N.eqb c QUOTE); [discriminate|reflexivity]. }
  rewrite (Ht o H). rewrite Ht; [apply rev_involutive|].
  unfold nomem in *. rewrite forallb_forall in *. intros x Hx. apply H. now apply in_rev.
Qed.

Theorem builder_options opts : opts <> [] ->
  Forall (fun o => o <> [] /\ nomem QUOTE o = true /\ nomem SLASH o = true) opts ->
  in_opts (LPAREN :: join1 SLASH opts ++ [RPAREN]) = Some opts.
Proof.
  intros Hne Hall. unfold in_opts, in_vals. cbn [index_byte]. change (N.eqb LPAREN LPAREN) with true. cbv iota.
  change (LPAREN :: join1 SLASH opts ++ [RPAREN]) with ((LPAREN :: join1 SLASH opts) ++ [RPAREN]).
  rewrite last_index_snoc. cbn [length Nat.ltb Nat.leb Nat.add Nat.sub skipn].
  cbn [app skipn]. rewrite Nat.sub_0_r, firstn_app_len. cbn [option_map]. f_equal.
  (* no quote anywhere: fast path *)
  assert (Hq : has_quote (join1 SLASH opts) = false).
  { clear Hne. induction opts as [|o os IH]; [reflexivity|]. inversion Hall as [|? ? (_ & Ho & _) Hos]; subst.
    assert (Hoq : has_quote o = false).
    { unfold has_quote, nomem in *. destruct (existsb (N.eqb QUOTE) o) eqn:E; [|reflexivity].
      apply existsb_exists in E as (x & Hx & Hxe). rewrite forallb_forall in Ho. specialize (Ho x Hx).
      apply N.eqb_eq in Hxe. subst x. rewrite N.eqb_refl in Ho. discriminate. }
    destruct os as [|o2 os]; [exact Hoq|]. rewrite join1_cons by congruence. rewrite has_quote_app, Hoq.
    change (has_quote (SLASH :: join1 SLASH (o2 :: os))) with (N.eqb QUOTE SLASH || has_quote (join1 SLASH (o2 :: os))).
    rewrite (IH Hos). reflexivity. }
  unfold names_split. destruct (join1 SLASH opts) eqn:Ej.
  - exfalso. destruct opts as [|o os]; [congruence|]. inversion Hall as [|? ? (Ho & _) _]; subst.
    destruct os as [|o2 os]; [cbn in Ej; congruence|]. rewrite join1_cons in Ej by congruence.
    destruct o; [congruence|discriminate].
  - rewrite Hq. rewrite <- Ej. change (SLASH <? 128)%N with true. cbv iota.
    rewrite split1_pieces; [|assumption|].
    + rewrite <- (map_id opts) at 2. apply map_ext_in. intros o Ho. rewrite Forall_forall in Hall.
      apply trim_noquote. apply (Hall o Ho).
    + eapply Forall_impl; [|exact Hall]. intros o (_ & _ & H). exact H.
Qed.

(* ---- rules that delegate the decision to the standard library: the wiring around the call ---- *)
Section Oracle.
  Variable orc : oracles.

  Theorem ip_rules vn obj field s :
    violated (rIp orc vn obj field (VStr s)) = negb (fst (ip_lookup orc s)) /\
    violated (rIpv4 orc vn obj field (VStr s)) = negb (fst (ip_lookup orc s) && snd (ip_lookup orc s)) /\
    violated (rIpv6 orc vn obj field (VStr s)) = negb (fst (ip_lookup orc s) && negb (snd (ip_lookup orc s))).
  Proof.
    unfold rIp, rIpv4, rIpv6. repeat split.
    - exact (proj1 (str_rule_verdict _ (fun s => fst (ip_lookup orc s)) vn obj field s)).
    - exact (proj1 (str_rule_verdict _ (fun s => fst (ip_lookup orc s) && snd (ip_lookup orc s)) vn obj field s)).
    - exact (proj1 (str_rule_verdict _ (fun s => fst (ip_lookup orc s) && negb (snd (ip_lookup orc s))) vn obj field s)).
  Qed.

  Theorem json_rule vn obj field s : violated (rJson orc vn obj field (VStr s)) = negb (json_ok orc s).
  Proof. unfold rJson. cbn. destruct (json_ok orc s); reflexivity. Qed.

  Theorem file_dir_rules vn obj field s is_dir e : stat_lookup orc s = Some (is_dir, e) ->
    violated (rFile orc vn obj field (VStr s)) = is_dir /\ violated (rDir orc vn obj field (VStr s)) = negb is_dir.
  Proof. intros H. unfold rFile, rDir, file_like. cbn. rewrite H. destruct is_dir; split; reflexivity. Qed.

  (* a path that cannot be read violates both rules, and the clause carries the rule's own message *)
  Theorem file_dir_missing vn obj field s : stat_lookup orc s = None ->
    rFile orc vn obj field (VStr s) = [CValid obj field s (body_of (pk_msg vn) (s2b "stat"))] /\
    rDir orc vn obj field (VStr s) = [CValid obj field s (body_of (pk_msg vn) (s2b "stat"))].
  Proof. intros H. unfold rFile, rDir, file_like. cbn. rewrite H. split; reflexivity. Qed.

  (* the date rules ask the parser with exactly the documented layout *)
  Theorem date_rules vn obj field s :
    violated (rYear orc vn obj field (VStr s)) = negb (time_ok orc (s2b "2006") s) /\
    violated (rYear2Month orc vn obj field (VStr s)) =
      negb (time_ok orc (s2b "2006" ++ date_split vn ++ s2b "01") s) /\
    violated (rDate orc vn obj field (VStr s)) =
      negb (time_ok orc (s2b "2006" ++ date_split vn ++ s2b "01" ++ date_split vn ++ s2b "02") s).
  Proof.
    unfold rYear, rYear2Month, rDate. repeat split.
    - exact (proj1 (str_rule_verdict _ (time_ok orc (get_time_fmt 1 [])) vn obj field s)).
    - exact (proj1 (str_rule_verdict _ (time_ok orc (get_time_fmt 3 [date_split vn])) vn obj field s)).
    - rewrite (proj1 (str_rule_verdict _ (time_ok orc (get_time_fmt 7 [date_split vn])) vn obj field s)).
      f_equal. f_equal. unfold get_time_fmt, join_fn. cbn. rewrite <- ?app_assoc. reflexivity.
  Qed.

  Theorem datetime_rule vn obj field s a b c : datetime_splits vn = [a; b; c] ->
    violated (rDatetime orc vn obj field (VStr s)) =
      negb (time_ok orc (s2b "2006" ++ a ++ s2b "01" ++ a ++ s2b "02" ++ b ++ s2b "15" ++ c ++ s2b "04" ++ c ++ s2b "05") s).
  Proof.
    intros H. unfold rDatetime. rewrite (proj1 (str_rule_verdict _ _ vn obj field s)). rewrite H.
    f_equal. f_equal. unfold get_time_fmt, join_fn. cbn. rewrite <- ?app_assoc. reflexivity.
  Qed.

  (* re: the pattern handed to the engine is the text between the protecting quotes *)
  Definition re_pat_ok (p : str) : Prop :=
    p <> [] /\ last p 0%N <> BACKSLASH /\
    forall a c b, p = a ++ c :: QUOTE :: b -> c = BACKSLASH.

  Lemma re_scan_cons2 v w r acc :
    re_scan (v :: w :: r) acc =
    if negb (N.eqb v BACKSLASH) && N.eqb w QUOTE then Some (rev (v :: acc), r) else re_scan (w :: r) (v :: acc).
  Proof. reflexivity. Qed.

  Lemma re_scan_app p : forall acc rest, re_pat_ok p ->
    re_scan (p ++ QUOTE :: rest) acc = Some (rev acc ++ p, rest).
  Proof.
    induction p as [|v p IH]; intros acc rest (Hne & Hl & Hq); [congruence|].
    destruct p as [|w p'].
    - cbn [app re_scan]. cbn [last] in Hl.
      destruct (N.eqb_spec v BACKSLASH); [contradiction|]. rewrite N.eqb_refl. cbn [negb andb].
      reflexivity.
    - change ((v :: w :: p') ++ QUOTE :: rest) with (v :: w :: (p' ++ QUOTE :: rest)).
      rewrite re_scan_cons2.
      assert (Hstep : negb (N.eqb v BACKSLASH) && N.eqb w QUOTE = false).
      { destruct (N.eqb_spec w QUOTE) as [->|]; [|now rewrite andb_false_r].
        rewrite (Hq [] v p' eq_refl). now rewrite N.eqb_refl. }
      rewrite Hstep. change (w :: p' ++ QUOTE :: rest) with ((w :: p') ++ QUOTE :: rest).
      rewrite (IH (v :: acc) rest).
      + cbn [rev]. rewrite <- app_assoc. reflexivity.
      + split; [discriminate|]. split; [exact Hl|].
        intros a c b E. apply (Hq (v :: a) c b). cbn. now rewrite E.
  Qed.

  Fixpoint adj_ok (p : str) : bool :=
    match p with
    | c :: (d :: _) as r => (negb (N.eqb d QUOTE) || N.eqb c BACKSLASH) && adj_ok r
    | _ => true
    end.
  Definition re_pat_okb (p : str) : bool :=
    match p with [] => false | _ => negb (N.eqb (last p 0%N) BACKSLASH) && adj_ok p end.

  Lemma adj_ok_cons x y r : adj_ok (x :: y :: r) = (negb (N.eqb y QUOTE) || N.eqb x BACKSLASH) && adj_ok (y :: r).
  Proof. reflexivity. Qed.

  Lemma adj_ok_sound p : adj_ok p = true -> forall a c b, p = a ++ c :: QUOTE :: b -> c = BACKSLASH.
  Proof.
    induction p as [|x p IH]; intros H a c b E; [destruct a; discriminate|].
    destruct a as [|y a].
    - cbn [app] in E. inversion E; subst. rewrite adj_ok_cons in H. apply andb_prop in H as [H _].
      change (N.eqb QUOTE QUOTE) with true in H. cbn [negb orb] in H. now apply N.eqb_eq.
    - cbn [app] in E. inversion E; subst. apply (IH ltac:(
        destruct a as [|z a]; cbn [app] in H |- *; rewrite adj_ok_cons in H; apply andb_prop in H as [_ H]; exact H) a c b eq_refl).
  Qed.

  Lemma re_pat_okb_sound p : re_pat_okb p = true -> re_pat_ok p.
  Proof.
    unfold re_pat_okb, re_pat_ok. destruct p as [|x p]; [discriminate|]. intros H.
    apply andb_prop in H as [Hl Ha]. split; [discriminate|]. split.
    - intros E. rewrite E, N.eqb_refl in Hl. discriminate.
    - now apply adj_ok_sound.
  Qed.

  Theorem re_rule vn obj field s p msg_part :
    re_pat_ok p -> nomem QUOTE (s2b "re=") = true ->
    vn = s2b "re=" ++ QUOTE :: p ++ QUOTE :: msg_part ->
    violated (rRe orc vn obj field (VStr s)) = negb (re_ok orc p s).
  Proof.
    intros Hp _ ->. unfold rRe. cbn [check_is_str].
    change (s2b "re=" ++ QUOTE :: p ++ QUOTE :: msg_part) with (s2b "re=" ++ QUOTE :: (p ++ QUOTE :: msg_part)).
    rewrite (index_byte_app_hit QUOTE (s2b "re=") _ eq_refl).
    replace (skipn (length (s2b "re=") + 1) (s2b "re=" ++ QUOTE :: p ++ QUOTE :: msg_part)) with (p ++ QUOTE :: msg_part)
      by reflexivity.
    rewrite (re_scan_app p [] msg_part Hp). cbn [rev app str_of].
    destruct (re_ok orc p s); reflexivity.
  Qed.
End Oracle.
