(* WalkAddrProofs.v — validate writes exactly the contributions of the resolving addresses, each
   once, in lexicographic order (Spec/WalkAddr.v). *)
From Coq Require Import Sorted.
From PGV Require Import Base.Bytes Base.GoStr Base.GoNum Base.Utf8.
From PGV Require Import Extracted.SourceConst.
From PGV Require Import Model.RuleText Model.Value Model.Clause Model.Rules Model.Walk.
From PGV Require Import Spec.WalkAddr Proofs.RuleContract Proofs.WalkProofs.

(* ------------------------------------------------------------------ *)
(* generic facts about flat_mapi / pre                                  *)
(* ------------------------------------------------------------------ *)
Lemma in_flat_mapi {A B} (f : nat -> A -> list B) l : forall i y,
  In y (flat_mapi f i l) <-> exists k x, nth_error l k = Some x /\ In y (f (i + k)%nat x).
Proof.
  induction l as [|x l IH]; intros i y; cbn [flat_mapi].
  - split; [intros []|intros (k & x & H & _); destruct k; discriminate].
  - rewrite in_app_iff, IH. split.
    + intros [H|(k & x' & Hn & Hy)].
      * exists O, x. rewrite Nat.add_0_r. now split.
      * exists (S k), x'. split; [exact Hn|]. now rewrite Nat.add_succ_r.
    + intros (k & x' & Hn & Hy). destruct k as [|k].
      * inversion Hn; subst. rewrite Nat.add_0_r in Hy. now left.
      * right. exists k, x'. split; [exact Hn|]. now rewrite Nat.add_succ_r in Hy.
Qed.

Lemma in_pre i l a s : In (a, s) (pre i l) <-> exists a', a = i :: a' /\ In (a', s) l.
Proof.
  unfold pre. rewrite in_map_iff. split.
  - intros ([a' s'] & E & H). inversion E; subst. now exists a'.
  - intros (a' & -> & H). now exists (a', s).
Qed.

(* ------------------------------------------------------------------ *)
(* 1. what validate writes = the local contributions of the enumeration  *)
(* ------------------------------------------------------------------ *)
Definition emits (s : buf -> res buf) (cs : list clause) (gs : list gmember) : Prop :=
  forall b, s b = Ok {| b_cl := rev cs ++ b_cl b; b_gr := rev gs ++ b_gr b |}.

Lemma emits_id : emits (fun b => Ok b) [] [].
Proof. intros [cl gr]. reflexivity. Qed.
Lemma emits_put cs : emits (fun b => Ok (put b cs)) cs [].
Proof. intros [cl gr]. unfold put. cbn. now rewrite rev_append_rev. Qed.
Lemma emits_group m : emits (fun b => Ok (put_group b m)) [] [m].
Proof. intros [cl gr]. reflexivity. Qed.
Lemma emits_bind s1 s2 c1 g1 c2 g2 : emits s1 c1 g1 -> emits s2 c2 g2 ->
  emits (fun b => b1 <- s1 b ;; s2 b1) (c1 ++ c2) (g1 ++ g2).
Proof.
  intros H1 H2 b. rewrite H1. cbn. rewrite H2. cbn. now rewrite !rev_app_distr, <- !app_assoc.
Qed.
Lemma emits_eq s cs gs cs' gs' : emits s cs gs -> cs = cs' -> gs = gs' -> emits s cs' gs'.
Proof. now intros H -> ->. Qed.

Section Out.
  Variable c : cfg.
  Definition outc (l : list (list nat * site)) : list clause := flat_map (fun p => fst (local c (snd p))) l.
  Definition outg (l : list (list nat * site)) : list gmember := flat_map (fun p => snd (local c (snd p))) l.

  Lemma outc_app l1 l2 : outc (l1 ++ l2) = outc l1 ++ outc l2.
  Proof. apply flat_map_app. Qed.
  Lemma outg_app l1 l2 : outg (l1 ++ l2) = outg l1 ++ outg l2.
  Proof. apply flat_map_app. Qed.
  Lemma outc_pre i l : outc (pre i l) = outc l.
  Proof. unfold outc, pre. induction l as [|[a s] l IH]; cbn; [reflexivity|now rewrite IH]. Qed.
  Lemma outg_pre i l : outg (pre i l) = outg l.
  Proof. unfold outg, pre. induction l as [|[a s] l IH]; cbn; [reflexivity|now rewrite IH]. Qed.
End Out.

Section Emit.
  Variable c : cfg.
  Variable f : nat.
  Variable rec : str -> val -> bool -> buf -> res buf.
  Variable renum : str -> val -> list (list nat * site).
  Hypothesis Hrec : forall sn v g, wf_val v = true -> (depth v < f)%nat ->
    emits (rec sn v g) (top_clause sn v g ++ outc c (renum sn v)) (outg c (renum sn v)).
  Hypothesis Hnil : forall sn v, match remove_ptr v with VStruct _ _ => False | _ => True end -> renum sn v = [].

  Lemma on_elems_emits p vs : forall i k0, (forall x, In x vs -> wf_val x = true /\ (depth x < f)%nat) ->
    emits (on_elems rec p i vs)
          (outc c (flat_mapi (fun k px => pre k (renum (fst px) (snd px))) k0 (idx_kids p i vs)))
          (outg c (flat_mapi (fun k px => pre k (renum (fst px) (snd px))) k0 (idx_kids p i vs))).
  Proof.
    induction vs as [|x vs IH]; intros i k0 H; cbn [on_elems idx_kids flat_mapi].
    - apply emits_id.
    - rewrite outc_app, outg_app, outc_pre, outg_pre. cbn [fst snd].
      apply emits_bind.
      + destruct (H x (or_introl eq_refl)) as [Hw Hd].
        eapply emits_eq; [apply (Hrec (idx_path p i) x true Hw Hd)| |reflexivity].
        unfold top_clause. destruct (remove_ptr x); reflexivity.
      + apply IH. intros y Hy. apply H. now right.
  Qed.

  Lemma on_entries_emits p es : forall k0, (forall k x, In (k, x) es -> wf_val x = true /\ (depth x < f)%nat) ->
    emits (on_entries rec p es)
          (outc c (flat_mapi (fun k px => pre k (renum (fst px) (snd px))) k0 (key_kids p es)))
          (outg c (flat_mapi (fun k px => pre k (renum (fst px) (snd px))) k0 (key_kids p es))).
  Proof.
    induction es as [|[k x] es IH]; intros k0 H; cbn [on_entries key_kids map flat_mapi].
    - apply emits_id.
    - rewrite outc_app, outg_app, outc_pre, outg_pre. cbn [fst snd].
      apply emits_bind.
      + destruct (H k x (or_introl eq_refl)) as [Hw Hd].
        eapply emits_eq; [apply (Hrec (key_path p k) x true Hw Hd)| |reflexivity].
        unfold top_clause. destruct (remove_ptr x); reflexivity.
      + apply IH. intros k' y Hy. eapply H. right. exact Hy.
  Qed.

  Lemma zero_b_eq tv z : is_zero tv = Ok z -> zero_b tv = z.
  Proof. unfold zero_b. now intros ->. Qed.

  Definition kids_out (p : str) (tv : val) : list (list nat * site) :=
    if zero_b tv then [] else enum_kids renum (kids_of p tv).

  Lemma exist_emits ivk sn field cus tv : wf_val tv = true -> (depth tv < f)%nat ->
    emits (exist rec ivk sn field cus tv)
          (exist_local ivk sn field cus tv ++ outc c (kids_out (sn ++ DOT :: field) tv))
          (outg c (kids_out (sn ++ DOT :: field) tv)).
  Proof.
    intros Hw Hd. unfold exist, exist_local, kids_out.
    destruct (is_zero_total tv Hw) as [z Ez]. rewrite (zero_b_eq _ _ Ez).
    intros b. rewrite Ez. cbn [bind].
    destruct z; [destruct b; reflexivity|].
    pose (ns := if ivk then [CValid sn field (value_string tv) (req_body cus Exist)] else []).
    assert (Hns : emits (fun b => Ok (if ivk then put b [CValid sn field (value_string tv) (req_body cus Exist)] else b)) (ns ++ outc c []) (outg c [])).
    { subst ns. destruct ivk; [apply emits_put|apply emits_id]. }
    assert (Hrc : match remove_ptr tv with VInvalid | VStruct _ _ | VTime _ => True | _ => False end ->
                  emits (rec (sn ++ DOT :: field) tv false) ([] ++ outc c (renum (sn ++ DOT :: field) tv)) (outg c (renum (sn ++ DOT :: field) tv))).
    { intros Hk. eapply emits_eq; [apply (Hrec (sn ++ DOT :: field) tv false Hw Hd)| |reflexivity].
      unfold top_clause. destruct (remove_ptr tv); try reflexivity; destruct Hk. }
    assert (Hn0 : match remove_ptr tv with VStruct _ _ => False | _ => True end -> renum (sn ++ DOT :: field) tv = []) by apply Hnil.
    destruct tv; try (apply Hns); try discriminate.
    - (* pointer *) cbn [kids_of enum_kids].
      destruct (remove_ptr (VPtr tv)) eqn:Er; try (rewrite Hn0 by exact I; apply Hns); apply Hrc; exact I.
    - (* slice *) cbn [kids_of enum_kids app]. apply on_elems_emits. intros x Hx. destruct (wf_elems _ _ _ _ x Hw Hx). split; [assumption|lia].
    - (* array *) cbn [kids_of enum_kids app]. apply on_elems_emits. intros x Hx. destruct (wf_aelems _ _ _ x Hw Hx). split; [assumption|lia].
    - (* map *) cbn [kids_of enum_kids app]. apply on_entries_emits. intros k x Hx. destruct (wf_entries _ _ _ _ k x Hw Hx). split; [assumption|lia].
    - (* struct *) cbn [kids_of enum_kids remove_ptr]. apply Hrc. exact I.
    - (* time *) destruct b; reflexivity.
  Qed.

  Lemma required_emits sn field cus tv : wf_val tv = true -> (depth tv < f)%nat ->
    emits (required rec sn field cus tv)
          ((if empty_coll tv || zero_b tv then [CValid sn field [] (req_body cus Required)]
            else exist_local false sn field cus tv) ++
           outc c (if empty_coll tv || zero_b tv then [] else enum_kids renum (kids_of (sn ++ DOT :: field) tv)))
          (outg c (if empty_coll tv || zero_b tv then [] else enum_kids renum (kids_of (sn ++ DOT :: field) tv))).
  Proof.
    intros Hw Hd. unfold required. fold (empty_coll tv).
    destruct (is_zero_total tv Hw) as [z Ez]. rewrite (zero_b_eq _ _ Ez).
    intros b. rewrite Ez. cbn [bind].
    destruct (empty_coll tv || z) eqn:E.
    - apply (emits_put [CValid sn field [] (req_body cus Required)] b).
    - pose proof (exist_emits false sn field cus tv Hw Hd b) as H. rewrite H.
      unfold kids_out. rewrite (zero_b_eq _ _ Ez).
      apply orb_false_iff in E. destruct E as [_ ->]. reflexivity.
  Qed.

  Lemma on_rule_emits sn fname fv vn : wf_val fv = true -> (depth fv < f)%nat ->
    emits (on_rule c rec sn fname fv vn) (outc c (enum_rule c renum sn fname fv vn)) (outg c (enum_rule c renum sn fname fv vn)).
  Proof.
    intros Hw Hd. unfold on_rule, enum_rule. destruct vn as [|x vn']; [apply emits_id|].
    set (vn := x :: vn').
    unfold outc, outg. cbn [flat_map snd]. fold (outc c) (outg c).
    unfold local, descends. cbn [st_obj st_field st_val st_vn].
    destruct (is_zero_total fv Hw) as [z Ez].
    destruct (get_fn c (pk_key vn)) as [| |fn|t] eqn:Eg; cbn [fst snd].
    - apply (emits_put [CField sn fname (FKnown (not_exist_text (pk_key vn)))]).
    - destruct (str_eqb (pk_key vn) Required) eqn:Er; cbn [fst snd].
      + eapply emits_eq; [apply (required_emits sn fname (pk_msg vn) fv Hw Hd)| |].
        * destruct (empty_coll fv || zero_b fv); reflexivity.
        * destruct (empty_coll fv || zero_b fv); reflexivity.
      + destruct (str_eqb (pk_key vn) Exist) eqn:Ee; cbn [fst snd].
        * eapply emits_eq; [apply (exist_emits true sn fname (pk_msg vn) fv Hw Hd)| |];
            unfold kids_out; destruct (zero_b fv); reflexivity.
        * destruct (str_eqb (pk_key vn) Either || str_eqb (pk_key vn) BothEq); cbn [fst snd].
          -- apply emits_group.
          -- apply emits_id.
    - intros b. rewrite Ez. cbn [bind]. rewrite (zero_b_eq _ _ Ez).
      destruct z; [destruct b; reflexivity|]. apply (emits_eq _ _ _ _ _ (emits_put (fn vn sn fname fv))); now rewrite ?app_nil_r.
    - intros b. rewrite Ez. cbn [bind]. rewrite (zero_b_eq _ _ Ez).
      destruct z; [destruct b; reflexivity|]. apply (emits_put [mark_clause sn fname t]).
  Qed.

  Lemma on_rules_emits sn fname fv vns : forall j0, wf_val fv = true -> (depth fv < f)%nat ->
    emits (on_rules c rec sn fname fv vns)
          (outc c (flat_mapi (fun j vn => pre j (enum_rule c renum sn fname fv vn)) j0 vns))
          (outg c (flat_mapi (fun j vn => pre j (enum_rule c renum sn fname fv vn)) j0 vns)).
  Proof.
    induction vns as [|vn vns IH]; intros j0 Hw Hd; cbn [on_rules flat_mapi].
    - apply emits_id.
    - rewrite outc_app, outg_app, outc_pre, outg_pre.
      apply emits_bind; [now apply on_rule_emits|now apply IH].
  Qed.

  Lemma on_fields_emits sn cus fs : forall i0, (forall fi x, In (fi, x) fs -> wf_val x = true /\ (depth x < f)%nat) ->
    emits (on_fields c rec sn cus fs)
          (outc c (flat_mapi (fun i fx => pre i (enum_field c renum sn cus fx)) i0 fs))
          (outg c (flat_mapi (fun i fx => pre i (enum_field c renum sn cus fx)) i0 fs)).
  Proof.
    induction fs as [|[fi fv] fs IH]; intros i0 H; cbn [on_fields flat_mapi].
    - apply emits_id.
    - rewrite outc_app, outg_app, outc_pre, outg_pre.
      apply emits_bind.
      + destruct (H fi fv (or_introl eq_refl)) as [Hw Hd].
        unfold enum_field, field_rules. cbn [fst snd].
        destruct (f_time fi || negb (is_exported (f_name fi))); [apply emits_id|].
        cbv zeta.
        destruct (rm_get cus (f_name fi)) as [|o1 over].
        * destruct (tag_get (f_tags fi) (c_tag c)) as [|t1 tg]; [apply emits_id|now apply on_rules_emits].
        * now apply on_rules_emits.
      + apply IH. intros fi' y Hy. eapply H. right. exact Hy.
  Qed.

  Lemma validate_body_emits sn value gather : wf_val value = true -> (depth value < S f)%nat ->
    emits (validate_body c rec sn value gather)
          (top_clause sn value gather ++ outc c (enum_body c renum sn value))
          (outg c (enum_body c renum sn value)).
  Proof.
    intros Hw Hd. unfold validate_body, top_clause, enum_body.
    destruct (remove_ptr_wf value Hw) as [E|[Hw' Hd']].
    - rewrite E. apply emits_id.
    - destruct (remove_ptr value) eqn:Er;
        try (destruct gather; [apply emits_id|apply (emits_put [CField sn _ (FKnown (s2b "is not struct"))])]);
        try discriminate; try apply emits_id.
      assert (Hf : forall fi x, In (fi, x) fields -> wf_val x = true /\ (depth x < f)%nat).
      { intros fi x Hx. destruct (wf_fields _ _ fi x Hw' Hx). split; [assumption|lia]. }
      cbn [app]. unfold obj_ctx.
      destruct sn as [|s0 sn0]; cbn [fst snd]; now apply on_fields_emits.
  Qed.
End Emit.

Lemma enum_nil c fuel sn v : match remove_ptr v with VStruct _ _ => False | _ => True end -> enum c fuel sn v = [].
Proof. destruct fuel; [reflexivity|]. cbn [enum]. unfold enum_body. destruct (remove_ptr v); try reflexivity. intros []. Qed.

Theorem validate_emits c fuel : forall sn v g, wf_val v = true -> (depth v < fuel)%nat ->
  emits (validate c fuel sn v g) (top_clause sn v g ++ outc c (enum c fuel sn v)) (outg c (enum c fuel sn v)).
Proof.
  induction fuel as [|f IH]; intros sn v g Hw Hd; [lia|].
  cbn [validate enum]. apply (validate_body_emits c f (validate c f) (enum c f) IH (enum_nil c f) sn v g Hw Hd).
Qed.

(* ------------------------------------------------------------------ *)
(* 2. the enumeration lists exactly the resolving addresses              *)
(* ------------------------------------------------------------------ *)
Lemma nth_idx_kids p vs : forall i k q x, nth_error (idx_kids p i vs) k = Some (q, x) -> In x vs /\ q = idx_path p (i + k).
Proof.
  induction vs as [|y vs IH]; intros i k q x H; [destruct k; discriminate|].
  destruct k as [|k]; cbn in H.
  - inversion H; subst. rewrite Nat.add_0_r. split; [now left|reflexivity].
  - destruct (IH _ _ _ _ H) as [Hi Hq]. split; [now right|]. now rewrite Nat.add_succ_r.
Qed.
Lemma nth_key_kids p es k q x : nth_error (key_kids p es) k = Some (q, x) -> exists kv, In (kv, x) es /\ q = key_path p kv.
Proof.
  unfold key_kids. rewrite nth_error_map. destruct (nth_error es k) as [[kv y]|] eqn:E; [|discriminate].
  cbn. intros H. inversion H; subst. exists kv. split; [eapply nth_error_In; exact E|reflexivity].
Qed.

Lemma kids_many_wf p fv l k q x : wf_val fv = true -> kids_of p fv = KMany l -> nth_error l k = Some (q, x) ->
  wf_val x = true /\ (depth x < depth fv)%nat.
Proof.
  intros Hw Hk Hn. destruct fv; try discriminate; cbn in Hk; inversion Hk; subst.
  - destruct (nth_idx_kids _ _ _ _ _ _ Hn) as [Hi _]. exact (wf_elems _ _ _ _ x Hw Hi).
  - destruct (nth_idx_kids _ _ _ _ _ _ Hn) as [Hi _]. exact (wf_aelems _ _ _ x Hw Hi).
  - destruct (nth_key_kids _ _ _ _ _ Hn) as (kv & Hi & _). exact (wf_entries _ _ _ _ kv x Hw Hi).
Qed.
Lemma kids_one p fv q x : kids_of p fv = KOne q x -> q = p /\ x = fv.
Proof. destruct fv; try discriminate; cbn; intros H; inversion H; now split. Qed.

Section Iff.
  Variable c : cfg.
  Variable f : nat.
  Variable renum : str -> val -> list (list nat * site).
  Hypothesis IH : forall a s sn v, wf_val v = true -> (depth v < f)%nat ->
    (In (a, s) (renum sn v) <-> resolve c a sn v = Some s).

  (* what lies below a rule instance *)
  Definition below (sn fname : str) (fv : val) (vn : str) (a : list nat) (s : site) : Prop :=
    match a with
    | [] => s = {| st_obj := sn; st_field := fname; st_val := fv; st_vn := vn |}
    | k :: rest' =>
      descends c vn fv = true /\
      match kids_of (sn ++ DOT :: fname) fv with
      | KOne p x => resolve c a p x = Some s
      | KMany l => match nth_error l k with Some (p, x) => resolve c rest' p x = Some s | None => False end
      | KNone => False
      end
    end.

  Lemma resolve_nonempty a sn v s : resolve c a sn v = Some s -> a <> [].
  Proof. destruct a; [discriminate|intros _ E; discriminate]. Qed.

  Lemma enum_rule_iff sn fname fv vn a s : wf_val fv = true -> (depth fv < f)%nat ->
    (In (a, s) (enum_rule c renum sn fname fv vn) <-> (vn <> [] /\ below sn fname fv vn a s)).
  Proof.
    intros Hw Hd. unfold enum_rule. destruct vn as [|vb vr]; [split; [intros []|intros [H _]; now destruct H]|].
    set (vn := vb :: vr). cbn [In]. split.
    - intros [E|H].
      + inversion E; subst. split; [discriminate|reflexivity].
      + split; [discriminate|]. destruct (descends c vn fv) eqn:Ed; [|destruct H].
        unfold enum_kids in H. destruct (kids_of (sn ++ DOT :: fname) fv) as [p x|l|] eqn:Ek; [| |destruct H].
        * destruct (kids_one _ _ _ _ Ek) as [-> ->]. apply IH in H; [|assumption|assumption].
          unfold below. destruct a as [|k rest']; [discriminate|]. rewrite Ek. split; [exact Ed|exact H].
        * apply in_flat_mapi in H. destruct H as (k & [p x] & Hn & Hin). cbn [fst snd plus] in Hin.
          apply in_pre in Hin. destruct Hin as (a' & -> & Hin).
          destruct (kids_many_wf _ _ _ _ _ _ Hw Ek Hn) as [Hwx Hdx].
          apply IH in Hin; [|assumption|lia].
          unfold below. rewrite Ek, Hn. split; [exact Ed|exact Hin].
    - intros [_ H]. unfold below in H. destruct a as [|k rest'].
      + left. now rewrite H.
      + right. destruct H as [Hd' H]. rewrite Hd'. unfold enum_kids.
        destruct (kids_of (sn ++ DOT :: fname) fv) as [p x|l|] eqn:Ek; [| |destruct H].
        * destruct (kids_one _ _ _ _ Ek) as [-> ->]. apply IH; assumption.
        * destruct (nth_error l k) as [[p x]|] eqn:Hn; [|destruct H].
          destruct (kids_many_wf _ _ _ _ _ _ Hw Ek Hn) as [Hwx Hdx].
          apply in_flat_mapi. exists k, (p, x). split; [exact Hn|]. cbn [fst snd plus].
          apply in_pre. exists rest'. split; [reflexivity|]. apply IH; [assumption|lia|exact H].
  Qed.

  Lemma enum_body_iff sn v a s : wf_val v = true -> (depth v < S f)%nat ->
    (In (a, s) (enum_body c renum sn v) <-> resolve c a sn v = Some s).
  Proof.
    intros Hw Hd. unfold enum_body.
    destruct (remove_ptr_wf v Hw) as [E|[Hw' Hd']].
    { rewrite E. split; [intros []|]. destruct a as [|i [|j rest]]; cbn [resolve]; try discriminate. now rewrite E. }
    destruct (remove_ptr v) as [| | | | | | | | | | |si fs| | |] eqn:Er;
      try (split; [intros []|destruct a as [|i [|j rest]]; cbn [resolve]; try discriminate; now rewrite Er]).
    assert (Hf : forall fi x, In (fi, x) fs -> wf_val x = true /\ (depth x < f)%nat).
    { intros fi x Hx. destruct (wf_fields _ _ fi x Hw' Hx). split; [assumption|lia]. }
    rewrite in_flat_mapi. split.
    - intros (i & [fi fv] & Hn & Hin). cbn [plus] in Hin. apply in_pre in Hin. destruct Hin as (a1 & -> & Hin).
      unfold enum_field in Hin. cbn [fst snd] in Hin. apply in_flat_mapi in Hin.
      destruct Hin as (j & vn & Hj & Hin). cbn [plus] in Hin. apply in_pre in Hin. destruct Hin as (a2 & -> & Hin).
      destruct (Hf fi fv (nth_error_In _ _ Hn)) as [Hwf Hdf].
      apply enum_rule_iff in Hin; [|assumption|assumption]. destruct Hin as [Hvn Hb].
      cbn [resolve]. rewrite Er, Hn, Hj. destruct vn as [|vb vr]; [now destruct Hvn|].
      unfold below in Hb. destruct a2 as [|k rest'].
      + now rewrite Hb.
      + destruct Hb as [Hd1 Hb]. rewrite Hd1.
        destruct (kids_of (fst (obj_ctx c sn si) ++ DOT :: f_name fi) fv) as [p x|l|]; [exact Hb| |destruct Hb].
        destruct (nth_error l k) as [[p x]|]; [exact Hb|destruct Hb].
    - intros H. destruct a as [|i [|j rest]]; try discriminate. cbn [resolve] in H. rewrite Er in H.
      destruct (nth_error fs i) as [[fi fv]|] eqn:Hn; [|discriminate].
      destruct (nth_error (field_rules c (snd (obj_ctx c sn si)) fi) j) as [[|vb vr]|] eqn:Hj; try discriminate.
      destruct (Hf fi fv (nth_error_In _ _ Hn)) as [Hwf Hdf].
      exists i, (fi, fv). split; [exact Hn|]. cbn [plus]. apply in_pre. exists (j :: rest). split; [reflexivity|].
      unfold enum_field. cbn [fst snd]. apply in_flat_mapi. exists j, (vb :: vr). split; [exact Hj|].
      cbn [plus]. apply in_pre. exists rest. split; [reflexivity|].
      apply enum_rule_iff; [assumption|assumption|]. split; [discriminate|].
      unfold below. destruct rest as [|k rest'].
      + now inversion H.
      + destruct (descends c (vb :: vr) fv); [|discriminate]. split; [reflexivity|].
        destruct (kids_of (fst (obj_ctx c sn si) ++ DOT :: f_name fi) fv) as [p x|l|]; [exact H| |discriminate].
        destruct (nth_error l k) as [[p x]|]; [exact H|discriminate].
  Qed.
End Iff.

Theorem enum_iff c fuel : forall a s sn v, wf_val v = true -> (depth v < fuel)%nat ->
  (In (a, s) (enum c fuel sn v) <-> resolve c a sn v = Some s).
Proof.
  induction fuel as [|f IH]; intros a s sn v Hw Hd; [lia|].
  cbn [enum]. apply (enum_body_iff c f (enum c f) IH sn v a s Hw Hd).
Qed.

(* ------------------------------------------------------------------ *)
(* 3. the enumeration is strictly increasing in the lexicographic order  *)
(* ------------------------------------------------------------------ *)
Definition addrs (l : list (list nat * site)) : list (list nat) := map fst l.

Lemma lex_lt_irrefl a : ~ lex_lt a a.
Proof. induction a as [|x a IH]; cbn; [tauto|]. intros [H|[_ H]]; [lia|auto]. Qed.
Lemma lex_lt_trans a : forall b d, lex_lt a b -> lex_lt b d -> lex_lt a d.
Proof.
  induction a as [|x a IH]; intros [|y b] [|z d]; cbn; try tauto.
  intros [H1|[-> H1]] [H2|[-> H2]]; try (left; lia). right. split; [reflexivity|]. eapply IH; eassumption.
Qed.

Lemma ss_app {A} (R : A -> A -> Prop) l1 l2 : StronglySorted R l1 -> StronglySorted R l2 ->
  (forall x y, In x l1 -> In y l2 -> R x y) -> StronglySorted R (l1 ++ l2).
Proof.
  induction l1 as [|x l1 IH]; intros H1 H2 H; cbn; [exact H2|].
  inversion H1; subst. constructor.
  - apply IH; [assumption|assumption|]. intros a b Ha Hb. apply H; [now right|assumption].
  - apply Forall_app. split; [assumption|]. apply Forall_forall. intros y Hy. apply H; [now left|assumption].
Qed.
Lemma ss_map_cons i L : StronglySorted lex_lt L -> StronglySorted lex_lt (map (cons i) L).
Proof.
  induction 1 as [|a L Hs IH Hf]; cbn; constructor; [assumption|].
  apply Forall_forall. intros y Hy. apply in_map_iff in Hy. destruct Hy as (b & <- & Hb).
  cbn. right. split; [reflexivity|]. rewrite Forall_forall in Hf. now apply Hf.
Qed.
Lemma ss_nodup L : StronglySorted lex_lt L -> NoDup L.
Proof.
  induction 1 as [|a L Hs IH Hf]; constructor; [|assumption].
  intros Hin. rewrite Forall_forall in Hf. exact (lex_lt_irrefl a (Hf a Hin)).
Qed.

Lemma addrs_app l1 l2 : addrs (l1 ++ l2) = addrs l1 ++ addrs l2.
Proof. apply map_app. Qed.
Lemma addrs_pre i l : addrs (pre i l) = map (cons i) (addrs l).
Proof. unfold addrs, pre. rewrite !map_map. reflexivity. Qed.

Definition head_ge (n : nat) (a : list nat) : Prop := match a with h :: _ => (n <= h)%nat | [] => False end.

Lemma sorted_blocks {A} (g : nat -> A -> list (list nat * site)) l : forall i0,
  (forall k x, nth_error l k = Some x -> StronglySorted lex_lt (addrs (g (i0 + k)%nat x))) ->
  StronglySorted lex_lt (addrs (flat_mapi (fun i x => pre i (g i x)) i0 l)) /\
  Forall (head_ge i0) (addrs (flat_mapi (fun i x => pre i (g i x)) i0 l)).
Proof.
  induction l as [|x l IH]; intros i0 H; cbn [flat_mapi].
  - split; constructor.
  - destruct (IH (S i0)) as [Hs Hh].
    { intros k y Hk. specialize (H (S k) y Hk). now rewrite Nat.add_succ_r in H. }
    rewrite addrs_app, addrs_pre. split.
    + apply ss_app; [apply ss_map_cons; specialize (H O x eq_refl); now rewrite Nat.add_0_r in H|exact Hs|].
      intros a b Ha Hb. apply in_map_iff in Ha. destruct Ha as (a' & <- & _).
      rewrite Forall_forall in Hh. specialize (Hh b Hb). destruct b as [|h b]; [destruct Hh|]. cbn in *. left. lia.
    + apply Forall_app. split.
      * apply Forall_forall. intros a Ha. apply in_map_iff in Ha. destruct Ha as (a' & <- & _). cbn. lia.
      * eapply Forall_impl; [|exact Hh]. intros [|h a]; cbn; [tauto|lia].
Qed.

Lemma head_ge_nonempty n a : head_ge n a -> a <> [].
Proof. destruct a; [intros []|discriminate]. Qed.

Section Sorted.
  Variable c : cfg.
  Variable renum : str -> val -> list (list nat * site).
  Hypothesis Hs : forall sn v, StronglySorted lex_lt (addrs (renum sn v)) /\ Forall (fun a => a <> []) (addrs (renum sn v)).

  Lemma enum_kids_sorted k : StronglySorted lex_lt (addrs (enum_kids renum k)) /\ Forall (fun a => a <> []) (addrs (enum_kids renum k)).
  Proof.
    destruct k as [p x|l|]; cbn [enum_kids]; [apply Hs| |split; constructor].
    destruct (sorted_blocks (fun _ px => renum (fst px) (snd px)) l O) as [H1 H2].
    { intros k x _. apply Hs. }
    split; [exact H1|]. eapply Forall_impl; [|exact H2]. intros a. apply head_ge_nonempty.
  Qed.

  Lemma enum_rule_sorted sn fname fv vn : StronglySorted lex_lt (addrs (enum_rule c renum sn fname fv vn)).
  Proof.
    unfold enum_rule. destruct vn as [|vb vr]; [constructor|]. cbn [addrs map fst].
    assert (H : StronglySorted lex_lt (addrs (if descends c (vb :: vr) fv then enum_kids renum (kids_of (sn ++ DOT :: fname) fv) else [])) /\
                Forall (fun a => a <> []) (addrs (if descends c (vb :: vr) fv then enum_kids renum (kids_of (sn ++ DOT :: fname) fv) else []))).
    { destruct (descends c (vb :: vr) fv); [apply enum_kids_sorted|split; constructor]. }
    destruct H as [H1 H2]. constructor; [exact H1|].
    eapply Forall_impl; [|exact H2]. intros [|h a] Ha; [now destruct Ha|exact I].
  Qed.

  Lemma enum_body_sorted sn v : StronglySorted lex_lt (addrs (enum_body c renum sn v)) /\ Forall (fun a => a <> []) (addrs (enum_body c renum sn v)).
  Proof.
    unfold enum_body. destruct (remove_ptr v); try (split; constructor).
    match goal with |- context[flat_mapi ?F O ?L] =>
      destruct (sorted_blocks (fun _ fx => enum_field c renum (fst (obj_ctx c sn si)) (snd (obj_ctx c sn si)) fx) L O) as [H1 H2] end.
    { intros k fx _. unfold enum_field.
      apply (sorted_blocks (fun _ vn => enum_rule c renum _ (f_name (fst fx)) (snd fx) vn)).
      intros j vn _. apply enum_rule_sorted. }
    split; [exact H1|]. eapply Forall_impl; [|exact H2]. intros a. apply head_ge_nonempty.
  Qed.
End Sorted.

Theorem enum_sorted c fuel : forall sn v,
  StronglySorted lex_lt (addrs (enum c fuel sn v)) /\ Forall (fun a => a <> []) (addrs (enum c fuel sn v)).
Proof.
  induction fuel as [|f IH]; intros sn v; cbn [enum]; [split; constructor|].
  apply enum_body_sorted. exact IH.
Qed.

(* ------------------------------------------------------------------ *)
(* 4. the statement: exactly the resolving addresses, once each, in order *)
(* ------------------------------------------------------------------ *)
Lemma flat_map_sites c (F : cfg -> option site -> list clause) fuel sn v : wf_val v = true -> (depth v < fuel)%nat ->
  forall l, (forall p, In p l -> In p (enum c fuel sn v)) ->
  flat_map (fun p => F c (Some (snd p))) l = flat_map (fun a => F c (resolve c a sn v)) (addrs l).
Proof.
  intros Hw Hd. induction l as [|[a s] l IHl]; intros H; cbn; [reflexivity|].
  rewrite IHl by (intros p Hp; apply H; now right).
  assert (E : resolve c a sn v = Some s) by (apply (enum_iff c fuel a s sn v Hw Hd), H; now left).
  now rewrite E.
Qed.
Lemma flat_map_sites_g c fuel sn v : wf_val v = true -> (depth v < fuel)%nat ->
  forall l, (forall p, In p l -> In p (enum c fuel sn v)) ->
  flat_map (fun p => snd (local c (snd p))) l = flat_map (fun a => site_members c (resolve c a sn v)) (addrs l).
Proof.
  intros Hw Hd. induction l as [|[a s] l IHl]; intros H; cbn; [reflexivity|].
  rewrite IHl by (intros p Hp; apply H; now right).
  assert (E : resolve c a sn v = Some s) by (apply (enum_iff c fuel a s sn v Hw Hd), H; now left).
  now rewrite E.
Qed.

Theorem walk_exact c fuel sn v g : wf_val v = true -> (depth v < fuel)%nat ->
  exists L : list (list nat),
    StronglySorted lex_lt L /\ NoDup L /\
    (forall a, In a L <-> resolve c a sn v <> None) /\
    forall b, validate c fuel sn v g b =
      Ok {| b_cl := rev (top_clause sn v g ++ flat_map (fun a => site_clauses c (resolve c a sn v)) L) ++ b_cl b;
            b_gr := rev (flat_map (fun a => site_members c (resolve c a sn v)) L) ++ b_gr b |}.
Proof.
  intros Hw Hd. exists (addrs (enum c fuel sn v)).
  destruct (enum_sorted c fuel sn v) as [Hs _].
  split; [exact Hs|]. split; [now apply ss_nodup|]. split.
  - intros a. unfold addrs. rewrite in_map_iff. split.
    + intros ([a' s] & <- & Hin). apply (enum_iff c fuel a' s sn v Hw Hd) in Hin. cbn. now rewrite Hin.
    + intros Hn. destruct (resolve c a sn v) as [s|] eqn:E; [|now destruct Hn].
      exists (a, s). split; [reflexivity|]. now apply (enum_iff c fuel a s sn v Hw Hd).
  - intros b. rewrite (validate_emits c fuel sn v g Hw Hd b). unfold outc, outg.
    rewrite <- (flat_map_sites c (fun c o => site_clauses c o) fuel sn v Hw Hd (enum c fuel sn v) (fun p H => H)).
    rewrite <- (flat_map_sites_g c fuel sn v Hw Hd (enum c fuel sn v) (fun p H => H)).
    reflexivity.
Qed.

(* membership form: a clause is written iff it is the top clause or the contribution of a resolving address *)
Corollary walk_clause_iff c fuel sn v g b b' : wf_val v = true -> (depth v < fuel)%nat ->
  validate c fuel sn v g b = Ok b' ->
  exists cs, b_cl b' = rev cs ++ b_cl b /\
    forall cl, In cl cs <-> (In cl (top_clause sn v g) \/ exists a s, resolve c a sn v = Some s /\ In cl (fst (local c s))).
Proof.
  intros Hw Hd H. destruct (walk_exact c fuel sn v g Hw Hd) as (L & _ & _ & HL & Hv).
  rewrite Hv in H. inversion H; subst. cbn [b_cl].
  eexists. split; [reflexivity|]. intros cl. rewrite in_app_iff, in_flat_map. split.
  - intros [Ht|(a & Ha & Hc)]; [now left|right].
    destruct (resolve c a sn v) as [s|] eqn:E; [|destruct Hc]. now exists a, s.
  - intros [Ht|(a & s & E & Hc)]; [now left|right]. exists a. split; [apply HL; now rewrite E|]. now rewrite E.
Qed.

(* the entry point on a struct (or pointers to one): the error is exactly these clauses, then the
   group clauses; nil iff there is none *)
Definition outcome_of (cs : list clause) (gs : list gmember) : outcome :=
  match cs ++ eval_groups gs with [] => ONil | l => OClauses l end.

Theorem struct_exact c fuel v rv : wf_val v = true -> (depth v < fuel)%nat -> strip_top v = inl rv ->
  match rv with VSlice _ _ _ _ | VArray _ _ _ | VMap _ _ _ _ => False | _ => True end ->
  exists L : list (list nat),
    StronglySorted lex_lt L /\ NoDup L /\
    (forall a, In a L <-> resolve c a [] rv <> None) /\
    struct_valid c fuel (Some v) =
      Ok (outcome_of (top_clause [] rv false ++ flat_map (fun a => site_clauses c (resolve c a [] rv)) L)
                     (flat_map (fun a => site_members c (resolve c a [] rv)) L)).
Proof.
  intros Hw Hd Hs Hk. destruct (strip_top_wf v rv Hw Hs) as [Hw' Hd'].
  destruct (walk_exact c fuel [] rv false Hw' ltac:(lia)) as (L & H1 & H2 & H3 & H4).
  exists L. repeat split; try assumption; try (now apply H3).
  unfold struct_valid. rewrite Hs.
  assert (E : (match rv with
               | VSlice _ _ et vs | VArray _ et vs => on_elems (validate c fuel) et O vs empty_buf
               | VMap _ _ _ es => on_entries (validate c fuel) (s2b "map") es empty_buf
               | _ => validate c fuel [] rv false empty_buf
               end) = validate c fuel [] rv false empty_buf).
  { destruct rv; try reflexivity; destruct Hk. }
  rewrite E, H4. cbn [bind]. unfold get_error, outcome_of. cbn [b_cl b_gr empty_buf].
  now rewrite !app_nil_r, !rev_involutive.
Qed.

(* ---------- the entry point on any accepted input: struct, or slice / array / map of structs ---------- *)
Lemma flat_map_resolved {X} (F : option site -> list X) (R : list nat -> option site) l :
  (forall a s, In (a, s) l -> R a = Some s) ->
  flat_map (fun p => F (Some (snd p))) l = flat_map (fun a => F (R a)) (addrs l).
Proof.
  induction l as [|[a s] l IHl]; intros H; cbn; [reflexivity|].
  rewrite IHl by (intros a' s' Hp; apply H; now right). now rewrite (H a s (or_introl eq_refl)).
Qed.

Definition enum_top (c : cfg) (fuel : nat) (rv : val) : list (list nat * site) :=
  enum_kids (enum c fuel) (top_kids rv).

Lemma enum_top_iff c fuel rv a s : wf_val rv = true -> (depth rv < fuel)%nat ->
  (In (a, s) (enum_top c fuel rv) <-> resolve_top c a rv = Some s).
Proof.
  intros Hw Hd. unfold enum_top, resolve_top.
  assert (Hmany : forall l, (forall k q x, nth_error l k = Some (q, x) -> wf_val x = true /\ (depth x < fuel)%nat) ->
     (In (a, s) (enum_kids (enum c fuel) (KMany l)) <->
      match a with k :: rest => match nth_error l k with Some (p, x) => resolve c rest p x | None => None end | [] => None end = Some s)).
  { intros l Hl. cbn [enum_kids]. rewrite in_flat_mapi. split.
    - intros (k & [p x] & Hn & Hin). cbn [plus fst snd] in Hin. apply in_pre in Hin. destruct Hin as (a' & -> & Hin).
      rewrite Hn. destruct (Hl _ _ _ Hn). now apply enum_iff in Hin.
    - destruct a as [|k rest]; [discriminate|]. destruct (nth_error l k) as [[p x]|] eqn:Hn; [|discriminate].
      intros H. exists k, (p, x). split; [exact Hn|]. cbn [plus fst snd]. apply in_pre. exists rest. split; [reflexivity|].
      destruct (Hl _ _ _ Hn). now apply enum_iff. }
  destruct rv; cbn [top_kids]; try (cbn [enum_kids]; now apply enum_iff).
  - apply Hmany. intros k q x Hn. destruct (nth_idx_kids _ _ _ _ _ _ Hn) as [Hi _].
    destruct (wf_elems _ _ _ _ x Hw Hi). split; [assumption|lia].
  - apply Hmany. intros k q x Hn. destruct (nth_idx_kids _ _ _ _ _ _ Hn) as [Hi _].
    destruct (wf_aelems _ _ _ x Hw Hi). split; [assumption|lia].
  - apply Hmany. intros k q x Hn. destruct (nth_key_kids _ _ _ _ _ Hn) as (kv & Hi & _).
    destruct (wf_entries _ _ _ _ kv x Hw Hi). split; [assumption|lia].
Qed.

Theorem struct_valid_exact c fuel v rv : wf_val v = true -> (depth v < fuel)%nat -> strip_top v = inl rv ->
  exists L : list (list nat),
    StronglySorted lex_lt L /\ NoDup L /\
    (forall a, In a L <-> resolve_top c a rv <> None) /\
    struct_valid c fuel (Some v) =
      Ok (outcome_of (top_clause_of rv ++ flat_map (fun a => site_clauses c (resolve_top c a rv)) L)
                     (flat_map (fun a => site_members c (resolve_top c a rv)) L)).
Proof.
  intros Hw Hd Hs. destruct (strip_top_wf v rv Hw Hs) as [Hw' Hd'].
  assert (Hdr : (depth rv < fuel)%nat) by lia.
  exists (addrs (enum_top c fuel rv)).
  destruct (enum_kids_sorted (enum c fuel) (enum_sorted c fuel) (top_kids rv)) as [Hsort _].
  split; [exact Hsort|]. split; [now apply ss_nodup|]. split.
  - intros a. unfold addrs. rewrite in_map_iff. split.
    + intros ([a' s] & <- & Hin). apply (enum_top_iff c fuel rv a' s Hw' Hdr) in Hin. cbn. now rewrite Hin.
    + intros Hn. destruct (resolve_top c a rv) as [s|] eqn:E; [|now destruct Hn].
      exists (a, s). split; [reflexivity|]. now apply (enum_top_iff c fuel rv a s Hw' Hdr).
  - rewrite <- (flat_map_resolved (site_clauses c) (fun a => resolve_top c a rv) (enum_top c fuel rv))
      by (intros a s; apply (enum_top_iff c fuel rv a s Hw' Hdr)).
    rewrite <- (flat_map_resolved (site_members c) (fun a => resolve_top c a rv) (enum_top c fuel rv))
      by (intros a s; apply (enum_top_iff c fuel rv a s Hw' Hdr)).
    unfold struct_valid. rewrite Hs.
    assert (E : emits (fun b => match rv with
               | VSlice _ _ et vs | VArray _ et vs => on_elems (validate c fuel) et O vs b
               | VMap _ _ _ es => on_entries (validate c fuel) (s2b "map") es b
               | _ => validate c fuel [] rv false b
               end) (top_clause_of rv ++ outc c (enum_top c fuel rv)) (outg c (enum_top c fuel rv))).
    { unfold enum_top, top_clause_of.
      destruct rv; cbn [top_kids enum_kids app]; try (apply validate_emits; assumption).
      - apply (on_elems_emits c fuel (validate c fuel) (enum c fuel) (validate_emits c fuel)).
        intros x Hx. destruct (wf_elems _ _ _ _ x Hw' Hx). split; [assumption|lia].
      - apply (on_elems_emits c fuel (validate c fuel) (enum c fuel) (validate_emits c fuel)).
        intros x Hx. destruct (wf_aelems _ _ _ x Hw' Hx). split; [assumption|lia].
      - apply (on_entries_emits c fuel (validate c fuel) (enum c fuel) (validate_emits c fuel)).
        intros k x Hx. destruct (wf_entries _ _ _ _ k x Hw' Hx). split; [assumption|lia]. }
    rewrite (E empty_buf). cbn [bind]. unfold get_error, outcome_of, outc, outg. cbn [b_cl b_gr empty_buf].
    now rewrite !app_nil_r, !rev_involutive.
Qed.
