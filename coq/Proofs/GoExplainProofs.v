(* GoExplainProofs.v — GetOnlyExplainErr (valid/init.go) from the source text computes the model's only_explain on EVERY
   error text (the loop over the clauses by an invariant): what C15_extract says about the extractor is said about the
   source. *)
From Coq Require Import String.
From PGV Require Import Base.Bytes Base.GoStr Base.Utf8 Base.MiniGo Extracted.SourceConst Extracted.SourceFnsMsg.
From PGV Require Import Model.RuleText Model.GoParse Model.Explain Proofs.GoRangeProofs.
Open Scope Z_scope.

Lemma has_prefix_len : forall (p s : str), has_prefix s p = true -> (List.length p <= List.length s)%nat.
Proof.
  induction p as [|c p IH]; intros s H; cbn [List.length]; [lia|].
  destruct s as [|x s]; cbn [has_prefix] in H; [discriminate|].
  apply andb_true_iff in H. destruct H as [_ H]. specialize (IH s H). cbn [List.length]. lia.
Qed.
Lemma index_bound sub : forall (s : str) i, index sub s = Some i -> (i + List.length sub <= List.length s)%nat.
Proof.
  induction s as [|x s IH]; intros i; cbn [index].
  - destruct (has_prefix [] sub) eqn:E; [|discriminate]. intros H; inversion H; subst. apply has_prefix_len in E. cbn in *. lia.
  - destruct (has_prefix (x :: s) sub) eqn:E.
    + intros H; inversion H; subst. apply has_prefix_len in E. lia.
    + destruct (index sub s) as [j|]; [|discriminate]. intros H; inversion H; subst. specialize (IH j eq_refl). cbn [List.length]. lia.
Qed.

Lemma trim_prefix_blank (s : str) : trim_prefix s [32%N] = trim_one_space s.
Proof.
  unfold trim_prefix, trim_one_space. destruct s as [|x s]; [reflexivity|]. cbn [has_prefix List.length skipn].
  destruct (N.eqb_spec x 32) as [->|H]; cbn [andb].
  - destruct s; reflexivity.
  - destruct x as [|p]; [reflexivity|]. repeat (destruct p as [p|p|]; try reflexivity); congruence.
Qed.

Lemma filter_map_app {A B} (f : A -> option B) l1 l2 : filter_map f (l1 ++ l2) = filter_map f l1 ++ filter_map f l2.
Proof. induction l1 as [|x l1 IH]; cbn [app filter_map]; [reflexivity|]. destruct (f x); rewrite IH; reflexivity. Qed.

Lemma join_snoc (sep : str) (l : list str) x :
  join sep (l ++ [x]) = match l with [] => x | _ => join sep l ++ sep ++ x end.
Proof.
  induction l as [|a [|b l] IH]; [reflexivity| reflexivity |].
  change ((a :: b :: l) ++ [x]) with (a :: (b :: l) ++ [x]).
  change (join sep (a :: (b :: l) ++ [x])) with (a ++ sep ++ join sep ((b :: l) ++ [x])).
  rewrite IH. change (join sep (a :: b :: l)) with (a ++ sep ++ join sep (b :: l)). rewrite <- !app_assoc. reflexivity.
Qed.

Definition FM (cls : list str) (k : nat) : list str := filter_map explain1 (firstn k cls).
Definition is_nil {X} (l : list X) : bool := match l with [] => true | _ => false end.

Definition Pex (cls : list str) (k : nat) (e : penv) : Prop :=
  e "buf"%string = PS (join ErrEndFlag (FM cls k)) /\ e "isFirst"%string = PB (is_nil (FM cls k)) /\
  e "ErrEndFlag"%string = PS ErrEndFlag /\ e "ExplainZh"%string = PS ExplainZh /\ e "ExplainEn"%string = PS ExplainEn.

Lemma FM_step cls k cl : nth_error cls k = Some cl ->
  FM cls (S k) = FM cls k ++ match explain1 cl with Some y => [y] | None => [] end.
Proof.
  intros H. unfold FM. rewrite (firstn_snoc cls k cl H), filter_map_app. cbn [filter_map].
  destruct (explain1 cl); reflexivity.
Qed.

Ltac xstep :=
  lazy beta iota zeta delta
    [run_explain pexec pexec_list peval pset pempty fn_body fn_GetOnlyExplainErr
     String.eqb Ascii.eqb Bool.eqb andb orb negb];
  cbn [str_eqb].

Lemma of_nat_ne_m1 n : (Z.of_nat n =? -1) = false.
Proof. apply Z.eqb_neq. lia. Qed.
Lemma ltb_nat a b : (Z.of_nat a <? Z.of_nat b) = Nat.ltb a b.
Proof. destruct (Nat.ltb_spec a b); [apply Z.ltb_lt|apply Z.ltb_ge]; lia. Qed.
Lemma slice_from (s : str) n : (n <= List.length s)%nat -> slice_of s (Some (Z.of_nat n)) None = PS (skipn n s).
Proof.
  intros H. unfold slice_of. replace ((0 <=? Z.of_nat n) && (Z.of_nat n <=? Z.of_nat (List.length s))) with true.
  - now rewrite Nat2Z.id.
  - symmetry. apply andb_true_intro. split; apply Z.leb_le; lia.
Qed.

Lemma index1_zh s : index1 s ExplainZh = PZ (match index ExplainZh s with Some n => Z.of_nat n | None => -1 end).
Proof. reflexivity. Qed.
Lemma index1_en s : index1 s ExplainEn = PZ (match index ExplainEn s with Some n => Z.of_nat n | None => -1 end).
Proof. reflexivity. Qed.

Theorem explain_from_source msg : run_explain fn_GetOnlyExplainErr msg = Some (only_explain msg).
Proof.
  destruct msg as [|c m]; [reflexivity|]. unfold only_explain. xstep. unfold ErrEndFlag at 1. xstep.
  match goal with |- context[range_loop ?l 0 ?b ?e] =>
    destruct (range_inv b (Pex l) l 0%nat e) as (e' & He' & HP') end.
  - repeat split; reflexivity.
  - intros j cl e0 Hn (Hbuf & Hfirst & Hsep & Hzh & Hen). cbn [Nat.add] in *.
    repeat (xstep; rewrite ?Hbuf, ?Hfirst, ?Hsep, ?Hzh, ?Hen, ?index1_zh, ?index1_en).
    destruct (index ExplainZh cl) as [z|] eqn:Ez; destruct (index ExplainEn cl) as [en|] eqn:Een;
      try (destruct (Nat.ltb_spec en z) as [Hlt|Hge]);
      repeat (progress (xstep; rewrite ?of_nat_ne_m1, ?ltb_nat, ?Hbuf, ?Hfirst, ?Hsep, ?Hzh, ?Hen;
                        cbn [Z.opp Z.eqb Pos.eqb negb andb orb];
                        try match goal with
                            | H : (?a < ?b)%nat |- context[Nat.ltb ?a ?b] => replace (Nat.ltb a b) with true by (symmetry; apply Nat.ltb_lt; exact H)
                            | H : (?b <= ?a)%nat |- context[Nat.ltb ?a ?b] => replace (Nat.ltb a b) with false by (symmetry; apply Nat.ltb_ge; exact H)
                            end)).
    all: set (cls := split (c :: m) [59%N; 32%N]) in *.
    all: assert (Hx : explain1 cl = match index ExplainZh cl, index ExplainEn cl with
                                    | Some z, Some e => if Nat.ltb e z then Some (trim_one_space (skipn (e + List.length ExplainEn) cl))
                                                        else Some (trim_one_space (skipn (z + List.length ExplainZh) cl))
                                    | Some z, None => Some (trim_one_space (skipn (z + List.length ExplainZh) cl))
                                    | None, Some e => Some (trim_one_space (skipn (e + List.length ExplainEn) cl))
                                    | None, None => None
                                    end)
           by (unfold explain1, first_label; destruct (index ExplainZh cl), (index ExplainEn cl); try destruct (Nat.ltb _ _); reflexivity);
         rewrite Ez, Een in Hx;
         try (replace (Nat.ltb en z) with true in Hx by (symmetry; apply Nat.ltb_lt; assumption));
         try (replace (Nat.ltb en z) with false in Hx by (symmetry; apply Nat.ltb_ge; assumption));
         pose proof (FM_step cls j cl Hn) as Hfm; rewrite Hx in Hfm.
    (* no label in this clause: skipped *)
    5: { eexists. split; [right; reflexivity|]. unfold Pex. rewrite Hfm, app_nil_r.
         repeat split; lazy beta iota zeta delta [String.eqb Ascii.eqb Bool.eqb]; assumption. }
    all: destruct (FM cls j) as [|f0 fr] eqn:Efm; cbn [is_nil];
         repeat (progress (xstep; rewrite ?Hbuf, ?Hfirst, ?Hsep, ?Hzh, ?Hen));
         rewrite <- Nat2Z.inj_add;
         (rewrite slice_from by (try pose proof (index_bound _ _ _ Ez); try pose proof (index_bound _ _ _ Een); lia));
         rewrite trim_prefix_blank;
         (eexists; split; [left; reflexivity|]);
         unfold Pex; rewrite Hfm, join_snoc;
         repeat split; lazy beta iota zeta delta [String.eqb Ascii.eqb Bool.eqb]; try assumption; try reflexivity.
    all: rewrite <- app_assoc; reflexivity.
  - change (Z.of_nat 0) with 0 in He'. rewrite He'. destruct HP' as (Hbuf' & _). xstep. rewrite Hbuf'. xstep.
    unfold FM. cbn [Nat.add]. rewrite firstn_all. reflexivity.
Qed.

Lemma extractor_never_panics msg : exists r, run_explain fn_GetOnlyExplainErr msg = Some r.
Proof. eexists. apply explain_from_source. Qed.
