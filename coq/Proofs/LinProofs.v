(* Soundness of the linearizability checker of Run/Run_C10.v: it answers true only when a witness
   order exists (a permutation of the recorded calls, legal for the sequential semantics,
   respecting real time). *)
From PGV Require Import Base.Bytes Spec.LRUSpec Model.LRU Model.ConcLRU Run.Run_C10.
From Coq Require Import Permutation.
Open Scope Z_scope.

Lemma picks_perm {X} (l : list X) : forall pre e rest,
  In (e, rest) (picks pre l) -> Permutation (e :: rest) (rev pre ++ l).
Proof.
  induction l as [|x l IH]; intros pre e rest H; cbn [picks] in H; [destruct H|].
  destruct H as [H|H].
  - inversion H; subst. rewrite rev_append_rev. apply Permutation_middle.
  - apply IH in H. cbn [rev] in H. rewrite <- app_assoc in H. exact H.
Qed.

Lemma lazy_exists_eq {X} (f : X -> bool) l : lazy_exists f l = existsb f l.
Proof. induction l as [|x l IH]; cbn; [reflexivity|]. rewrite IH. now destruct (f x). Qed.

Section Sound.
  Context {S : Type}.
  Variable sem : S -> cop -> S * cres.

  Lemma lin_sound fuel : forall s h, lin sem fuel s h = true -> linearizable sem s h.
  Proof.
    induction fuel as [|f IH]; intros s h H; [discriminate|]. cbn [lin] in H.
    destruct h as [|x h'].
    - exists []. repeat split; constructor.
    - rewrite lazy_exists_eq in H. apply existsb_exists in H as ([e rest] & Hin & Hc).
      destruct (minimal e rest) eqn:Hmin; [|discriminate].
      destruct (sem s (h_op e)) as [s' r] eqn:E. destruct (cres_eqb r (h_res e)) eqn:Hres; [|discriminate]. rename Hc into Hrec.
      destruct (IH s' rest Hrec) as (l & Hp & Hl & Hrt).
      exists (e :: l). split; [|split].
      + eapply Permutation_trans; [apply perm_skip; exact Hp|].
        apply (picks_perm (x :: h') [] e rest Hin).
      + cbn [legal]. rewrite E. cbn [fst snd]. split; assumption.
      + cbn [rt_ok]. split; [|assumption]. intros e' Hin' Hlt.
        unfold minimal in Hmin. rewrite forallb_forall in Hmin.
        specialize (Hmin e' (Permutation_in _ Hp Hin')).
        apply Z.ltb_lt in Hlt. rewrite Hlt in Hmin. discriminate.
  Qed.
End Sound.

Theorem linearizableb_model_sound cap h :
  linearizableb_model cap h = true -> linearizable cstep (init cap) h.
Proof. apply lin_sound. Qed.

Theorem linearizableb_spec_sound cap h :
  linearizableb_spec cap h = true -> linearizable (astep cap) [] h.
Proof. apply lin_sound. Qed.
