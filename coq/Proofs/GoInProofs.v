(* GoInProofs.v — In, Include and in (valid/validfn.go) from the source text: in() with ANY comparison function writes
   in_text; In and Include are in() with string equality resp. strings.Contains; and in_text is nothing exactly when
   the model's in_like reports no clause. *)
From Coq Require Import String.
From PGV Require Import Base.Bytes Base.GoStr Base.GoNum Base.Utf8 Base.MiniGo Regex.Re Regex.Rx.
From PGV Require Import Extracted.SourceConst Extracted.SourceRegex Extracted.SourceFnsIn.
From PGV Require Import Model.RuleText Model.Value Model.Clause Model.Rules Model.GoRule.
Open Scope Z_scope.

Lemma index_byte_nth c : forall (s : str) n, index_byte c s = Some n -> nth_error s n = Some c.
Proof.
  induction s as [|x s IH]; intros n; cbn [index_byte]; [discriminate|].
  destruct (N.eqb_spec x c) as [->|Hne]; [intros H; inversion H; reflexivity|].
  destruct (index_byte c s) as [m|]; [|discriminate]. intros H; inversion H; subst. cbn. apply IH. reflexivity.
Qed.
Lemma last_index_byte_nth c : forall (s : str) n, last_index_byte c s = Some n -> nth_error s n = Some c.
Proof.
  induction s as [|x s IH]; intros n; cbn [last_index_byte]; [discriminate|].
  destruct (last_index_byte c s) as [m|].
  - intros H; inversion H; subst. cbn. apply IH. reflexivity.
  - destruct (N.eqb_spec x c) as [->|Hne]; [intros H; inversion H; reflexivity|discriminate].
Qed.
Lemma nth_error_lt {X} (l : list X) n x : nth_error l n = Some x -> (n < List.length l)%nat.
Proof. intros H. apply nth_error_Some. congruence. Qed.

Definition not_loop_var (x : string) : Prop :=
  String.eqb x "isIn" = false /\ String.eqb x "v" = false /\ String.eqb x "_" = false.

Lemma in_loop (g : str -> str -> option bool) (tv : str) (body : Z -> str -> renv -> rflow) :
  (forall idx c e0, e0 "tvVal"%string = RS tv -> e0 "fn"%string = RFn g -> e0 "isIn"%string = RB false ->
     body idx c e0 = match g tv (trim [QUOTE] c) with
                     | Some true => RBrk (rset "isIn" (RB true) (rset "v" (RS c) (rset "_" (RZ idx) e0)))
                     | Some false => RNext (rset "v" (RS c) (rset "_" (RZ idx) e0))
                     | None => RStuck
                     end) ->
  forall opts idx e, e "tvVal"%string = RS tv -> e "fn"%string = RFn g -> e "isIn"%string = RB false ->
  match find_hit g tv opts with
  | None => range_brk opts idx body e = RStuck
  | Some b => exists e', range_brk opts idx body e = RNext e' /\ e' "isIn"%string = RB b /\
                         (forall x, not_loop_var x -> e' x = e x)
  end.
Proof.
  intros Hbody. induction opts as [|o r IH]; intros idx e Htv Hfn Hin; cbn [find_hit range_brk].
  - exists e. repeat split; auto.
  - rewrite (Hbody idx o e Htv Hfn Hin). destruct (g tv (trim [QUOTE] o)) as [[|]|]; [| |reflexivity].
    + eexists. split; [reflexivity|]. split; [reflexivity|].
      intros x (H1 & H2 & H3). unfold rset. rewrite H1, H2, H3. reflexivity.
    + set (e1 := rset "v" (RS o) (rset "_" (RZ idx) e)).
      specialize (IH (idx + 1) e1 Htv Hfn Hin). destruct (find_hit g tv r) as [b|]; [|exact IH].
      destruct IH as (e' & He' & Hb & Hag). exists e'. split; [exact He'|]. split; [exact Hb|].
      intros x Hx. rewrite (Hag x Hx). destruct Hx as (H1 & H2 & H3). unfold e1, rset. rewrite H2, H3. reflexivity.
Qed.

Lemma of_nat_ne_m1 n : (Z.of_nat n =? -1) = false.
Proof. apply Z.eqb_neq. lia. Qed.
Lemma ltb_nat a b : (Z.of_nat a <? Z.of_nat b) = Nat.ltb a b.
Proof. destruct (Nat.ltb_spec a b); [apply Z.ltb_lt|apply Z.ltb_ge]; lia. Qed.
Lemma rslice_ok (s : str) lb rb : (lb + 1 <= rb)%nat -> (rb <= List.length s)%nat ->
  rslice s (Z.of_nat lb + 1) (Z.of_nat rb) = RS (firstn (rb - (lb + 1)) (skipn (lb + 1) s)).
Proof.
  intros H1 H2. unfold rslice.
  replace ((0 <=? Z.of_nat lb + 1) && (Z.of_nat lb + 1 <=? Z.of_nat rb) && (Z.of_nat rb <=? Z.of_nat (List.length s))) with true.
  - f_equal. f_equal; [lia|f_equal; lia].
  - symmetry. rewrite !andb_true_iff. repeat split; apply Z.leb_le; lia.
Qed.

Section In.
  Variable orc : oracles.
  Variable U : val -> str.
  Variable FE : str -> str -> ftext -> str.
  Variable ST : str -> str.

  Ltac istep :=
    lazy beta iota zeta delta
      [run_rule run_in rexec rexec_list reval rcall bind strs rset rempty fn_body check_str_err
       fn_In fn_Include fn_in
       String.eqb Ascii.eqb Bool.eqb andb orb negb fst snd];
    cbn [str_eqb value_string Z.opp Z.eqb Pos.eqb Z.leb Z.ltb Z.compare Pos.compare Pos.compare_cont Z.to_N].

  Lemma kind_is_string v : kind_is (rkind v) "String" = true -> exists s, v = VStr s.
  Proof. destruct v as [| | [] | [] | [] | | | | | | | | | |]; try discriminate. intros _. eexists; reflexivity. Qed.

  Theorem in_from_source g vn obj field v : run_in orc U FE ST fn_in g vn obj field v = in_text FE g vn obj field v.
  Proof.
    unfold in_text, in_vals, LPAREN, RPAREN. istep.
    change (str_eqb (pk_key vn) (s2b "include")) with (str_eqb (pk_key vn) [105; 110; 99; 108; 117; 100; 101]%N).
    destruct (str_eqb (pk_key vn) [105; 110; 99; 108; 117; 100; 101]%N) eqn:Ek; istep;
    (destruct (index_byte 40%N (pk_val vn)) as [lb|] eqn:El; destruct (last_index_byte 41%N (pk_val vn)) as [rb|] eqn:Er;
      rewrite ?of_nat_ne_m1, ?ltb_nat; istep; try reflexivity);
    (destruct (Nat.ltb_spec rb lb) as [Hlt|Hge]; istep; try reflexivity).
    all: pose proof (index_byte_nth _ _ _ El) as Hl; pose proof (last_index_byte_nth _ _ _ Er) as Hr;
         assert (Hne : lb <> rb) by (intros ->; rewrite Hl in Hr; discriminate Hr);
         pose proof (nth_error_lt _ _ _ Hr) as Hlen;
         rewrite rslice_ok by lia; istep.
    (* the kind of the value: a string, or anything else (include refuses it, in renders it with ToStr) *)
    all: destruct (kind_is (rkind v) "String") eqn:Hk;
         [ destruct (kind_is_string v Hk) as (s & ->) |
           replace (match v with VStr x => Some x | _ => Some (to_str v) end) with (Some (to_str v))
             by (destruct v; try reflexivity; discriminate Hk);
           replace (match v with VStr x => Some x | _ => @None str end) with (@None str)
             by (destruct v; try reflexivity; discriminate Hk) ];
         istep; rewrite ?Ek; istep; try reflexivity.
    all: match goal with |- context[range_brk ?opts ?i ?body ?e] =>
           let tvv := eval lazy beta iota zeta delta [String.eqb Ascii.eqb Bool.eqb] in (e "tvVal"%string) in
           match tvv with RS ?tv =>
             assert (Hbody : forall idx c e0, e0 "tvVal"%string = RS tv -> e0 "fn"%string = RFn g -> e0 "isIn"%string = RB false ->
               body idx c e0 = match g tv (trim [QUOTE] c) with
                               | Some true => RBrk (rset "isIn" (RB true) (rset "v" (RS c) (rset "_" (RZ idx) e0)))
                               | Some false => RNext (rset "v" (RS c) (rset "_" (RZ idx) e0))
                               | None => RStuck
                               end)
               by (intros idx c e0 Htv Hfn Hin; unfold QUOTE; istep; rewrite Hfn, Htv; istep;
                   destruct (g tv (trim [39%N] c)) as [[|]|]; istep; reflexivity);
             pose proof (in_loop g tv body Hbody opts i e eq_refl eq_refl eq_refl) as HL
           end end.
    all: unfold SLASH; cbn [Z.to_N] in HL;
         match type of HL with match find_hit ?a ?b ?c with _ => _ end => destruct (find_hit a b c) as [[|]|] end;
         [ destruct HL as (e' & He' & Hb & Hag) | destruct HL as (e' & He' & Hb & Hag) | ];
         try (rewrite He'; repeat (istep; rewrite ?Hb, ?Hag by (repeat split; reflexivity)));
         try (rewrite HL; istep); try reflexivity.
    all: destruct (pk_msg vn) as [|c0 m0]; repeat (istep; rewrite ?Hb, ?Hag by (repeat split; reflexivity)); try reflexivity.
    all: cbn [app]; rewrite <- ?app_assoc; try reflexivity.
  Qed.

  Lemma find_hit_ext g g' tv : (forall x y, g x y = g' x y) -> forall opts, find_hit g tv opts = find_hit g' tv opts.
  Proof. intros H. induction opts as [|o r IH]; cbn [find_hit]; [reflexivity|]. rewrite H, IH. reflexivity. Qed.
  Lemma in_text_ext g g' vn obj field v : (forall x y, g x y = g' x y) -> in_text FE g vn obj field v = in_text FE g' vn obj field v.
  Proof.
    intros H. unfold in_text. destruct (in_vals _); [|reflexivity].
    destruct (match v with VStr x => Some x | _ => _ end) as [t|]; [rewrite (find_hit_ext g g' _ H)|]; reflexivity.
  Qed.

  Definition g_eq (x y : str) : option bool := Some (str_eqb x y).
  Definition g_contains (x y : str) : option bool := Some (contains x y).

  (* In and Include are in() with string equality resp. strings.Contains as the comparison *)
  Theorem in_rule_from_source vn obj field v :
    run_rule orc U FE ST fn_In vn obj field v = in_text FE g_eq vn obj field v.
  Proof.
    istep. rewrite (in_text_ext _ g_eq vn obj field v); [destruct (in_text FE g_eq vn obj field v); reflexivity|].
    intros x y. unfold g_eq. istep. destruct (str_eqb x y); reflexivity.
  Qed.
  Theorem include_rule_from_source vn obj field v :
    run_rule orc U FE ST fn_Include vn obj field v = in_text FE g_contains vn obj field v.
  Proof.
    istep. rewrite (in_text_ext _ g_contains vn obj field v); [destruct (in_text FE g_contains vn obj field v); reflexivity|].
    intros x y. unfold g_contains. istep. reflexivity.
  Qed.

  (* ---- the verdict of the model's in_like (Model/Rules.v) is the verdict of the source text ---- *)
  Hypothesis FE_nonempty : forall o f t, FE o f t <> [].

  Lemma jve_nonempty obj field echo others : join_valid_err obj field echo others <> [].
  Proof. unfold join_valid_err. intros H. apply app_eq_nil in H. destruct H as [_ H]. discriminate H. Qed.

  Lemma find_hit_existsb (f : str -> str -> bool) tv opts :
    find_hit (fun x y => Some (f x y)) tv opts = Some (existsb (fun o => f tv o) (map (trim [QUOTE]) opts)).
  Proof.
    induction opts as [|o r IH]; cbn [find_hit map existsb]; [reflexivity|].
    destruct (f tv (trim [QUOTE] o)); [reflexivity|exact IH].
  Qed.

  Theorem in_decides vn obj field v : str_eqb (pk_key vn) (s2b "include") = false ->
    (in_text FE g_eq vn obj field v = Some [] <-> in_like vn obj field v = []).
  Proof.
    intros Hk. unfold in_text, in_like, in_opts, g_eq. rewrite Hk. destruct (in_vals (pk_val vn)) as [iv|]; cbn [option_map].
    - assert (G : forall t, (match find_hit (fun x y => Some (str_eqb x y)) t (names_split SLASH iv) with
                             | Some true => Some [] | Some false => Some (match pk_msg vn with [] => join_valid_err obj field t [ExplainEn; s2b "it should " ++ pk_key vn ++ s2b " (" ++ iv ++ s2b ")"] | cus => join_valid_err obj field t [cus] end)
                             | None => None end = Some [] <->
                             (if existsb (fun o => str_eqb t o) (map (trim [QUOTE]) (names_split SLASH iv)) then [] else [CValid obj field t (body_of (pk_msg vn) (pk_key vn))]) = [])).
      { intros t. rewrite find_hit_existsb. destruct (existsb _ _); split; intros H; try reflexivity; try discriminate H.
        exfalso. inversion H as [H1]. revert H1. destruct (pk_msg vn); apply jve_nonempty. }
      destruct v; apply G.
    - split; intros H; [exfalso; inversion H as [H1]; revert H1; apply FE_nonempty | discriminate H].
  Qed.

  Theorem include_decides vn obj field v : str_eqb (pk_key vn) (s2b "include") = true ->
    (in_text FE g_contains vn obj field v = Some [] <-> in_like vn obj field v = []).
  Proof.
    intros Hk. unfold in_text, in_like, in_opts, g_contains. rewrite Hk. destruct (in_vals (pk_val vn)) as [iv|]; cbn [option_map].
    - destruct v; try (split; intros H; [exfalso; inversion H as [H1]; revert H1; apply FE_nonempty | discriminate H]).
      rewrite find_hit_existsb. destruct (existsb _ _); split; intros H; try reflexivity; try discriminate H.
      exfalso. inversion H as [H1]. revert H1. destruct (pk_msg vn); apply jve_nonempty.
    - split; intros H; [exfalso; inversion H as [H1]; revert H1; apply FE_nonempty | discriminate H].
  Qed.
End In.

Theorem in_rules_from_source (orc : oracles) (U : val -> str) (FE : str -> str -> ftext -> str) (ST : str -> str) vn obj field v :
  (forall g, run_in orc U FE ST fn_in g vn obj field v = in_text FE g vn obj field v) /\
  run_rule orc U FE ST fn_In vn obj field v = in_text FE g_eq vn obj field v /\
  run_rule orc U FE ST fn_Include vn obj field v = in_text FE g_contains vn obj field v.
Proof. repeat split; [intros g; apply in_from_source | apply in_rule_from_source | apply include_rule_from_source]. Qed.

Theorem in_rules_write_iff_clause (orc : oracles) (U : val -> str) (FE : str -> str -> ftext -> str) (ST : str -> str) :
  (forall o f t, FE o f t <> []) -> forall vn obj field v,
  (str_eqb (pk_key vn) (s2b "include") = false ->
     (run_rule orc U FE ST fn_In vn obj field v = Some [] <-> in_like vn obj field v = [])) /\
  (str_eqb (pk_key vn) (s2b "include") = true ->
     (run_rule orc U FE ST fn_Include vn obj field v = Some [] <-> in_like vn obj field v = [])).
Proof.
  intros Hne vn obj field v. rewrite in_rule_from_source, include_rule_from_source.
  split; intros Hk; [apply (in_decides FE Hne _ _ _ _ Hk) | apply (include_decides FE Hne _ _ _ _ Hk)].
Qed.

