(* FlatWalkProofs.v — Var, Map and Url: what each entry point writes is the concatenation, in rule
   order (and entry / parameter order), of what each rule instance writes by itself.  Together with
   Proofs/WalkAddrProofs.v (Struct) this is "every violated rule instance is reported exactly once,
   in order" for all four entry points. *)
From PGV Require Import Base.Bytes Base.GoStr Base.GoNum Base.Utf8 Base.Url.
From PGV Require Import Extracted.SourceConst.
From PGV Require Import Model.RuleText Model.Value Model.Clause Model.Rules Model.Walk.
From PGV Require Import Spec.WalkAddr Proofs.RuleContract Proofs.WalkProofs Proofs.WalkAddrProofs.

(* ---------- what ONE rule instance writes, per entry point (no buffer) ---------- *)
Definition var_out (c : cfg) (tv : val) (vn : str) : list clause :=
  match vn with
  | [] => []
  | _ =>
    let key := pk_key vn in let cus := pk_msg vn in
    match get_fn c key with
    | FErr => [CField [] [] (FKnown (not_exist_text key))]
    | FBuiltin =>
      if str_eqb key Required then
        (if negb (match tv with VSlice _ _ _ [] | VArray _ _ [] => true | _ => false end) && negb (zero_b tv)
         then [] else [CValid [] [] [] (req_body cus Required)])
      else [CField [] [] (FKnown (no_support_text vn))]
    | FRule f => if zero_b tv then [] else f vn [] [] tv
    | FMark t => if zero_b tv then [] else [mark_clause [] [] t]
    end
  end.

Definition map_out (c : cfg) (prefix key : str) (v : val) (vn : str) : list clause * list gmember :=
  match vn with
  | [] => ([], [])
  | _ =>
    let k := pk_key vn in let cus := pk_msg vn in
    match get_fn c k with
    | FErr => ([CField [] key (FKnown (not_exist_text k))], [])
    | FBuiltin =>
      if str_eqb k Required then
        (if negb (zero_b v) then [] else [CValid [] (map_get_key prefix key) [] (req_body cus Required)], [])
      else if str_eqb k Either || str_eqb k BothEq then
        ([], [{| g_key := gkey prefix vn; g_vn := vn; g_obj := []; g_field := key; g_val := v |}])
      else ([CField [] (map_get_key prefix key) (FKnown (no_support_text vn))], [])
    | FRule f => (if zero_b v then [] else f vn [] (map_get_key prefix key) v, [])
    | FMark t => (if zero_b v then [] else [mark_clause [] (map_get_key prefix key) t], [])
    end
  end.

Definition url_out (c : cfg) (key val_ : str) (vn : str) : list clause * list gmember :=
  match vn with
  | [] => ([], [])
  | _ =>
    let k := pk_key vn in let cus := pk_msg vn in
    match get_fn c k with
    | FErr => ([CField [] key (FKnown (not_exist_text k))], [])
    | FBuiltin =>
      if str_eqb k Required then (match val_ with [] => [CValid [] key [] (req_body cus Required)] | _ => [] end, [])
      else if str_eqb k Either || str_eqb k BothEq then
        ([], [{| g_key := gkey [] vn; g_vn := vn; g_obj := []; g_field := key; g_val := VStr val_ |}])
      else ([CField [] key (FKnown (no_support_text vn))], [])
    | FRule f => (match val_ with [] => [] | _ => f vn [] key (VStr val_) end, [])
    | FMark t => (match val_ with [] => [] | _ => [mark_clause [] key t] end, [])
    end
  end.

(* ---------- Var ---------- *)
Lemma var_rule_emits c tv vn : wf_val tv = true -> emits (var_rule c tv vn) (var_out c tv vn) [].
Proof.
  intros Hw. unfold var_rule, var_out. destruct vn as [|x vn']; [apply emits_id|].
  destruct (is_zero_total tv Hw) as [z Ez]. unfold zero_b. rewrite Ez.
  destruct (get_fn c (pk_key (x :: vn'))) as [| |fn|t].
  - apply emits_put.
  - destruct (str_eqb (pk_key (x :: vn')) Required); [|apply emits_put].
    intros b. cbn [bind].
    destruct (negb (match tv with VSlice _ _ _ [] | VArray _ _ [] => true | _ => false end) && negb z);
      [destruct b; reflexivity|apply (emits_put [CValid [] [] [] (req_body (pk_msg (x :: vn')) Required)])].
  - intros b. cbn [bind]. destruct z; [destruct b; reflexivity|apply emits_put].
  - intros b. cbn [bind]. destruct z; [destruct b; reflexivity|apply (emits_put [mark_clause [] [] t])].
Qed.

Theorem var_rules_exact c tv vns : wf_val tv = true ->
  emits (var_rules c tv vns) (flat_map (var_out c tv) vns) [].
Proof.
  intros Hw. induction vns as [|vn vns IH]; cbn [var_rules flat_map]; [apply emits_id|].
  change (@nil gmember) with (@nil gmember ++ @nil gmember). apply emits_bind; [now apply var_rule_emits|exact IH].
Qed.

(* ---------- Map ---------- *)
Lemma map_rule_emits c prefix key v vn : wf_val v = true ->
  emits (map_rule c prefix key v vn) (fst (map_out c prefix key v vn)) (snd (map_out c prefix key v vn)).
Proof.
  intros Hw. unfold map_rule, map_out. destruct vn as [|x vn']; [apply emits_id|].
  destruct (is_zero_total v Hw) as [z Ez]. unfold zero_b. rewrite Ez.
  destruct (get_fn c (pk_key (x :: vn'))) as [| |fn|t]; cbn [fst snd].
  - apply emits_put.
  - destruct (str_eqb (pk_key (x :: vn')) Required); cbn [fst snd].
    + intros b. cbn [bind]. destruct z; cbn [negb]; [apply (emits_put [CValid [] _ [] _])|destruct b; reflexivity].
    + destruct (str_eqb (pk_key (x :: vn')) Either || str_eqb (pk_key (x :: vn')) BothEq); cbn [fst snd];
        [apply emits_group|apply emits_put].
  - intros b. cbn [bind]. destruct z; [destruct b; reflexivity|apply emits_put].
  - intros b. cbn [bind]. destruct z; [destruct b; reflexivity|apply (emits_put [mark_clause [] _ t])].
Qed.

Theorem map_rules_exact c prefix key v vns : wf_val v = true ->
  emits (map_rules c prefix key v vns)
        (flat_map (fun vn => fst (map_out c prefix key v vn)) vns)
        (flat_map (fun vn => snd (map_out c prefix key v vn)) vns).
Proof.
  intros Hw. induction vns as [|vn vns IH]; cbn [map_rules flat_map]; [apply emits_id|].
  apply emits_bind; [now apply map_rule_emits|exact IH].
Qed.

(* the rules of one entry *)
Definition entry_rules (rules : rm) (key : str) : list str :=
  match rm_get rules key with [] => [] | vns => names_split COMMA vns end.

Theorem map_entries_exact c rules prefix es : (forall k x, In (k, x) es -> wf_val x = true) ->
  emits (map_entries c rules prefix es)
        (flat_map (fun e => flat_map (fun vn => fst (map_out c prefix (str_of (fst e)) (snd e) vn)) (entry_rules rules (str_of (fst e)))) es)
        (flat_map (fun e => flat_map (fun vn => snd (map_out c prefix (str_of (fst e)) (snd e) vn)) (entry_rules rules (str_of (fst e)))) es).
Proof.
  induction es as [|[k x] es IH]; intros H; cbn [map_entries flat_map fst snd]; [apply emits_id|].
  apply emits_bind.
  - unfold entry_rules. destruct (rm_get rules (str_of k)) as [|r0 r]; [apply emits_id|].
    apply map_rules_exact. exact (H k x (or_introl eq_refl)).
  - apply IH. intros k' y Hy. apply (H k' y). now right.
Qed.

(* ---------- Url ---------- *)
Lemma url_rule_emits c key v vn :
  emits (url_rule c key v vn) (fst (url_out c key v vn)) (snd (url_out c key v vn)).
Proof.
  unfold url_rule, url_out. destruct vn as [|x vn']; [apply emits_id|].
  destruct (get_fn c (pk_key (x :: vn'))) as [| |fn|t]; cbn [fst snd].
  - apply emits_put.
  - destruct (str_eqb (pk_key (x :: vn')) Required); cbn [fst snd].
    + destruct v; [apply (emits_put [CValid [] key [] _])|apply emits_id].
    + destruct (str_eqb (pk_key (x :: vn')) Either || str_eqb (pk_key (x :: vn')) BothEq); cbn [fst snd];
        [apply emits_group|apply emits_put].
  - destruct v; [apply emits_id|apply emits_put].
  - destruct v; [apply emits_id|apply (emits_put [mark_clause [] key t])].
Qed.

Theorem url_rules_exact c key v vns :
  emits (url_rules c key v vns)
        (flat_map (fun vn => fst (url_out c key v vn)) vns)
        (flat_map (fun vn => snd (url_out c key v vn)) vns).
Proof.
  induction vns as [|vn vns IH]; cbn [url_rules flat_map]; [apply emits_id|].
  apply emits_bind; [apply url_rule_emits|exact IH].
Qed.

Definition param_key (q : str) : str := nth 0 (split q EQS) [].
Definition param_val (q : str) : str := nth 1 (split q EQS) [].

Theorem url_params_exact c rules qs :
  emits (url_params c rules qs)
        (flat_map (fun q => flat_map (fun vn => fst (url_out c (param_key q) (param_val q) vn)) (entry_rules rules (param_key q))) qs)
        (flat_map (fun q => flat_map (fun vn => snd (url_out c (param_key q) (param_val q) vn)) (entry_rules rules (param_key q))) qs).
Proof.
  induction qs as [|q qs IH]; cbn [url_params flat_map]; [apply emits_id|].
  apply emits_bind; [|exact IH].
  unfold entry_rules, param_key, param_val. cbv zeta.
  destruct (rm_get rules (nth 0 (split q EQS) [])) as [|r0 r]; [apply emits_id|apply url_rules_exact].
Qed.

(* ---------- the entry points ---------- *)
Lemma remove_ptr_wf' v : wf_val v = true -> remove_ptr v <> VInvalid -> wf_val (remove_ptr v) = true.
Proof.
  induction v; cbn; intros H Hn; try exact H; try (now destruct Hn). now apply IHv.
Qed.

Theorem var_valid_exact c rules v : wf_val v = true -> remove_ptr v <> VInvalid ->
  var_supported (kind (remove_ptr v)) = true ->
  rm_get (rm_set [] validVarFieldName rules) validVarFieldName <> [] ->
  var_valid c rules (Some v) =
    Ok (outcome_of (flat_map (var_out c (remove_ptr v))
                             (names_split COMMA (rm_get (rm_set [] validVarFieldName rules) validVarFieldName))) []).
Proof.
  intros Hw Hn Hs Hr. unfold var_valid.
  pose proof (remove_ptr_wf' v Hw Hn) as Hw'.
  destruct (remove_ptr v) eqn:Er; try (now destruct Hn); rewrite Hs; cbn [negb];
    (destruct (rm_get (rm_set [] validVarFieldName rules) validVarFieldName) as [|r0 r] eqn:Eg; [now destruct Hr|]);
    rewrite (var_rules_exact c _ _ Hw' empty_buf); cbn [bind]; unfold get_error, outcome_of; cbn [b_cl b_gr empty_buf rev app];
    now rewrite !app_nil_r, rev_involutive.
Qed.

Theorem map_valid_exact c rules v isnil t es : wf_val v = true -> rules <> [] ->
  remove_ptr v = VMap isnil KString t es ->
  map_valid c rules (Some v) =
    Ok (outcome_of
          (flat_map (fun e => flat_map (fun vn => fst (map_out c [] (str_of (fst e)) (snd e) vn)) (entry_rules rules (str_of (fst e)))) es)
          (flat_map (fun e => flat_map (fun vn => snd (map_out c [] (str_of (fst e)) (snd e) vn)) (entry_rules rules (str_of (fst e)))) es)).
Proof.
  intros Hw Hr Er. unfold map_valid. destruct rules as [|r0 rules']; [now destruct Hr|]. rewrite Er.
  assert (Hw' : wf_val (VMap isnil KString t es) = true) by (rewrite <- Er; apply remove_ptr_wf'; [exact Hw|rewrite Er; discriminate]).
  unfold map_validate.
  rewrite (map_entries_exact c (r0 :: rules') [] es (fun k x Hin => proj1 (wf_entries _ _ _ _ k x Hw' Hin)) empty_buf).
  cbn [bind]. unfold get_error, outcome_of. cbn [b_cl b_gr empty_buf]. now rewrite !app_nil_r, !rev_involutive.
Qed.

Theorem url_valid_exact c rules s dec : query_unescape s = inl dec ->
  let query := match index QMARK dec with Some i => skipn (i + 1) dec | None => [] end in
  query <> [] ->
  url_valid c rules (Some (VStr s)) =
    Ok (outcome_of
          (flat_map (fun q => flat_map (fun vn => fst (url_out c (param_key q) (param_val q) vn)) (entry_rules rules (param_key q))) (split query AMP))
          (flat_map (fun q => flat_map (fun vn => snd (url_out c (param_key q) (param_val q) vn)) (entry_rules rules (param_key q))) (split query AMP))).
Proof.
  intros Hq query Hne. unfold url_valid. rewrite Hq. fold query.
  destruct query as [|q0 qr] eqn:Eq; [now destruct Hne|].
  rewrite (url_params_exact c rules (split (q0 :: qr) AMP) empty_buf).
  cbn [bind]. unfold get_error, outcome_of. cbn [b_cl b_gr empty_buf]. now rewrite !app_nil_r, !rev_involutive.
Qed.
