(* InjectProofs.v — proofs about Model/Inject.v against Spec/InjectSpec.v (C06, C07, C19). *)
From Coq Require Import Permutation.
From PGV Require Import Base.Bytes Base.GoStr Regex.Re Regex.Rx.
From PGV Require Import Extracted.SourceRegex.
From PGV Require Import Spec.InjectSpec Model.Inject.
Local Open Scope N_scope.

(* ================= generic list / byte facts ================= *)

Lemma nomem_app c a b : nomem c (a ++ b) = nomem c a && nomem c b.
Proof. unfold nomem. apply forallb_app. Qed.

Lemma is_nil_false {A} (l : list A) : is_nil l = false <-> l <> [].
Proof. destruct l; cbn; split; congruence. Qed.

Lemma span_all p a : forallb p a = true -> span p a = (a, []).
Proof.
  induction a as [|c a IH]; cbn; [reflexivity|]. intros H. apply andb_prop in H as [Hc Ha].
  rewrite Hc, (IH Ha). reflexivity.
Qed.

Lemma span_stop p a c r : forallb p a = true -> p c = false -> span p (a ++ c :: r) = (a, c :: r).
Proof.
  induction a as [|x a IH]; cbn; intros Ha Hc.
  - now rewrite Hc.
  - apply andb_prop in Ha as [Hx Ha]. rewrite Hx, (IH Ha Hc). reflexivity.
Qed.

Lemma span_spec p s a b : span p s = (a, b) ->
  s = a ++ b /\ forallb p a = true /\ match b with [] => True | c :: _ => p c = false end.
Proof.
  revert a b; induction s as [|c s IH]; cbn; intros a b H.
  - inversion H; subst. auto.
  - destruct (p c) eqn:Ec.
    + destruct (span p s) as [a' b'] eqn:Es. inversion H; subst.
      destruct (IH a' b eq_refl) as (H1 & H2 & H3). subst s. cbn. rewrite Ec, H2. auto.
    + inversion H; subst. cbn. rewrite Ec. auto.
Qed.

(* ================= the tag scanner ================= *)

(* shape of every match: word characters, colon, quote, non-quotes, quote *)
Lemma match_tag_here_shape s m rest : match_tag_here s = Some (m, rest) ->
  exists w v, s = w ++ COLON :: QUOTE :: v ++ QUOTE :: rest /\ m = w ++ COLON :: QUOTE :: v ++ [QUOTE] /\
              w <> [] /\ forallb is_word w = true /\ v <> [] /\ forallb is_nq v = true.
Proof.
  unfold match_tag_here. destruct (span is_word s) as [w r1] eqn:Ew.
  destruct w as [|w0 w]; [discriminate|].
  destruct r1 as [|c1 [|c2 r2]]; try discriminate.
  destruct ((c1 =? COLON) && (c2 =? QUOTE)) eqn:Ec; [|discriminate].
  apply andb_prop in Ec as [Ec1 Ec2]. apply N.eqb_eq in Ec1, Ec2. subst c1 c2.
  destruct (span is_nq r2) as [v r3] eqn:Ev.
  destruct v as [|v0 v]; [discriminate|]. destruct r3 as [|q r4]; [discriminate|].
  intros H. inversion H; subst m rest. clear H.
  apply span_spec in Ew as (Hs & Hw & _). apply span_spec in Ev as (Hr2 & Hv & Hq).
  unfold is_nq in Hq. apply negb_false_iff, N.eqb_eq in Hq. subst q.
  exists (w0 :: w), (v0 :: v). subst s r2. repeat split; try assumption; try discriminate.
Qed.

Lemma match_tag_here_shorter s m rest : match_tag_here s = Some (m, rest) -> (length rest < length s)%nat.
Proof.
  intros H. apply match_tag_here_shape in H as (w & v & -> & _). rewrite app_length. cbn. rewrite app_length. cbn. lia.
Qed.

Lemma is_word_not_colon c : is_word c = true -> (c =? COLON) = false.
Proof.
  unfold is_word, COLON. intros H. apply N.eqb_neq. intros ->. vm_compute in H. discriminate.
Qed.
Lemma is_word_not c d : is_word d = false -> is_word c = true -> (c =? d) = false.
Proof. intros Hd Hc. apply N.eqb_neq. intros ->. congruence. Qed.

(* a conventional item at the head is matched exactly *)
Lemma match_tag_here_item k b rest : conv_key k = true -> b <> [] -> forallb is_nq b = true ->
  match_tag_here (k ++ COLON :: QUOTE :: b ++ QUOTE :: rest) = Some (k ++ COLON :: QUOTE :: b ++ [QUOTE], rest).
Proof.
  intros Hk Hb Hnq. unfold conv_key in Hk. apply andb_prop in Hk as [Hk0 Hkw].
  unfold match_tag_here. rewrite (span_stop is_word k COLON _ Hkw eq_refl).
  destruct k as [|k0 k]; [discriminate|].
  rewrite !N.eqb_refl. cbn [andb].
  rewrite (span_stop is_nq b QUOTE rest Hnq eq_refl).
  destruct b as [|b0 b]; [congruence|]. reflexivity.
Qed.

Lemma find_all_fuel f1 : forall f2 s, (length s < f1)%nat -> (length s < f2)%nat ->
  find_all_tags f1 s = find_all_tags f2 s.
Proof.
  induction f1 as [|f1 IH]; intros f2 s H1 H2; [lia|]. destruct f2 as [|f2]; [lia|].
  cbn [find_all_tags]. destruct s as [|c r]; [reflexivity|].
  destruct (match_tag_here (c :: r)) as [[m rest]|] eqn:E.
  - apply match_tag_here_shorter in E. f_equal. apply IH; cbn [length] in *; lia.
  - apply IH; cbn [length] in *; lia.
Qed.

Lemma find_all_S f c r : find_all_tags (S f) (c :: r) =
  match match_tag_here (c :: r) with Some (m, rest) => m :: find_all_tags f rest | None => find_all_tags f r end.
Proof. reflexivity. Qed.

Lemma find_tags_nil : find_tags [] = [].
Proof. reflexivity. Qed.

Lemma find_tags_match s m rest : s <> [] -> match_tag_here s = Some (m, rest) -> find_tags s = m :: find_tags rest.
Proof.
  intros Hs E. unfold find_tags. destruct s as [|c r]; [congruence|]. rewrite find_all_S, E. f_equal.
  apply match_tag_here_shorter in E. apply find_all_fuel; cbn [length] in *; lia.
Qed.

Lemma find_tags_skip c r : match_tag_here (c :: r) = None -> find_tags (c :: r) = find_tags r.
Proof.
  intros E. unfold find_tags. rewrite find_all_S, E. apply find_all_fuel; cbn [length]; lia.
Qed.

Lemma match_tag_here_nonword c r : is_word c = false -> match_tag_here (c :: r) = None.
Proof. intros H. unfold match_tag_here. cbn [span]. now rewrite H. Qed.

(* no double quote, no match *)
Lemma find_tags_noquote s : nomem QUOTE s = true -> find_tags s = [].
Proof.
  induction s as [|c r IH]; intros H; [reflexivity|].
  destruct (match_tag_here (c :: r)) as [[m rest]|] eqn:E.
  - exfalso. apply match_tag_here_shape in E as (w & v & Hs & _). rewrite Hs in H.
    rewrite nomem_app in H. apply andb_prop in H as [_ H]. unfold nomem in H. cbn in H. discriminate.
  - rewrite (find_tags_skip _ _ E). apply IH. unfold nomem in *. cbn in H. now apply andb_prop in H as [_ H].
Qed.

Lemma body_char_nq b : forallb body_char b = true -> forallb is_nq b = true.
Proof.
  intros H. rewrite forallb_forall in *. intros x Hx. specialize (H x Hx). unfold body_char in H.
  now apply andb_prop in H as [H _].
Qed.

Lemma conv_body_split b : conv_body b = true -> b <> [] /\ forallb is_nq b = true /\ nomem NL b = true.
Proof.
  unfold conv_body. intros H. apply andb_prop in H as [H0 H1]. split; [now destruct b|]. split; [now apply body_char_nq|].
  unfold nomem. rewrite forallb_forall in *. intros x Hx. specialize (H1 x Hx). unfold body_char in H1.
  now apply andb_prop in H1 as [_ H1].
Qed.

Lemma fmt_item_eq it : fmt_item it = fst it ++ COLON :: QUOTE :: snd it ++ [QUOTE].
Proof. reflexivity. Qed.

Lemma fmt_item_app it r : fmt_item it ++ r = fst it ++ COLON :: QUOTE :: snd it ++ QUOTE :: r.
Proof. unfold fmt_item. rewrite <- app_assoc. cbn [app]. rewrite <- app_assoc. reflexivity. Qed.

(* the scanner on a formatted list followed by anything *)
Lemma find_tags_format items : forallb conv_item items = true -> forall trail,
  find_tags (format_items items ++ trail) = map fmt_item items ++ find_tags trail.
Proof.
  unfold format_items. induction items as [|it items IH]; intros Hc trail; [reflexivity|].
  cbn [forallb] in Hc. apply andb_prop in Hc as [Hit Hc]. unfold conv_item in Hit. apply andb_prop in Hit as [Hk Hb].
  destruct (conv_body_split _ Hb) as (Hb0 & Hnq & _).
  assert (Hne : forall r, fst it ++ COLON :: QUOTE :: snd it ++ QUOTE :: r <> []).
  { intros r. unfold conv_key in Hk. destruct (fst it); [discriminate|discriminate]. }
  destruct items as [|it2 items].
  - cbn [map join]. rewrite fmt_item_app.
    rewrite (find_tags_match _ _ _ (Hne _) (match_tag_here_item _ _ trail Hk Hb0 Hnq)). reflexivity.
  - cbn [map] in IH |- *.
    change (join [SPACE] (fmt_item it :: fmt_item it2 :: map fmt_item items))
      with (fmt_item it ++ [SPACE] ++ join [SPACE] (fmt_item it2 :: map fmt_item items)).
    rewrite <- app_assoc. rewrite fmt_item_app. rewrite <- app_assoc. cbn [app].
    rewrite (find_tags_match _ _ _ (Hne _) (match_tag_here_item _ _ _ Hk Hb0 Hnq)).
    rewrite find_tags_skip by (now apply match_tag_here_nonword).
    rewrite (IH Hc trail). reflexivity.
Qed.

Lemma conv_key_nocolon k : conv_key k = true -> nomem COLON k = true.
Proof.
  unfold conv_key, nomem. intros H. apply andb_prop in H as [_ H]. rewrite forallb_forall in *. intros x Hx.
  rewrite (is_word_not_colon x (H x Hx)). reflexivity.
Qed.

Lemma cut_colon_item it : conv_key (fst it) = true -> cut_colon (fmt_item it) = quote_item it.
Proof.
  intros Hk. unfold cut_colon, fmt_item, quote_item.
  rewrite (index_byte_app_hit COLON (fst it) _ (conv_key_nocolon _ Hk)).
  rewrite firstn_app_len. rewrite skipn_app_len. reflexivity.
Qed.

Lemma map_cut_colon items : forallb conv_item items = true -> map cut_colon (map fmt_item items) = map quote_item items.
Proof.
  induction items as [|it items IH]; cbn; intros H; [reflexivity|]. apply andb_prop in H as [Hit H].
  unfold conv_item in Hit. apply andb_prop in Hit as [Hk _]. now rewrite (cut_colon_item it Hk), IH.
Qed.

(* C06_scan_format, in its general form: what follows the items is scanned on its own *)
Theorem scan_tags_format_trail items trail : forallb conv_item items = true ->
  scan_tags (format_items items ++ trail) = map quote_item items ++ scan_tags trail.
Proof.
  intros H. unfold scan_tags. rewrite (find_tags_format items H trail), map_app, (map_cut_colon items H). reflexivity.
Qed.

Theorem scan_tags_format items : forallb conv_item items = true ->
  scan_tags (format_items items) = map quote_item items.
Proof.
  intros H. pose proof (scan_tags_format_trail items [] H) as E. rewrite !app_nil_r in E. exact E.
Qed.

(* the code's format on its own items is the abstract file's format *)
Lemma format_quote items : format (map quote_item items) = format_items items.
Proof.
  unfold format, format_items. rewrite map_map. f_equal.
Qed.

(* ================= override = merge ================= *)

Fixpoint override_rec (t inTags : tagitems) : tagitems :=
  match t with
  | [] => inTags
  | ti :: t' =>
    match find_dup (fst ti) inTags with
    | None => ti :: override_rec t' inTags
    | Some dup => nth dup inTags ti :: override_rec t' (remove_at dup inTags)
    end
  end.

Lemma override_loop_rec t : forall inTags acc, override_loop t inTags acc = acc ++ override_rec t inTags.
Proof.
  induction t as [|ti t IH]; intros inTags acc; cbn [override_loop override_rec]; [reflexivity|].
  destruct (find_dup (fst ti) inTags) as [dup|]; rewrite IH, <- app_assoc; reflexivity.
Qed.

Lemma override_is_rec t inTags : override t inTags = override_rec t inTags.
Proof. unfold override. now rewrite override_loop_rec. Qed.

Lemma find_dup_none k l : find_dup k l = None <-> lookup k l = None.
Proof.
  induction l as [|[k' v] l IH]; cbn; [tauto|]. rewrite (str_eqb_sym k k').
  destruct (str_eqb k' k); [split; discriminate|].
  destruct (find_dup k l) as [n|]; cbn.
  - split; [discriminate|]. intros H. apply IH in H. discriminate.
  - split; [intros _; now apply IH|reflexivity].
Qed.

Lemma find_dup_some k l j : find_dup k l = Some j ->
  exists a v b, l = a ++ (k, v) :: b /\ length a = j /\ lookup k a = None.
Proof.
  revert j; induction l as [|[k' v] l IH]; cbn; intros j H; [discriminate|].
  destruct (str_eqb k k') eqn:E.
  - apply str_eqb_eq in E; subst k'. inversion H; subst. exists [], v, l. auto.
  - destruct (find_dup k l) as [j'|]; [|discriminate]. inversion H; subst.
    destruct (IH j' eq_refl) as (a & v0 & b & -> & Hl & Hn).
    exists ((k', v) :: a), v0, b. cbn. rewrite (str_eqb_sym k' k), E. auto.
Qed.

Lemma nth_app_len {A} (a : list A) x b d : nth (length a) (a ++ x :: b) d = x.
Proof. induction a; cbn; auto. Qed.
Lemma remove_at_app_len {A} (a : list A) x b : remove_at (length a) (a ++ x :: b) = a ++ b.
Proof. induction a; cbn; congruence. Qed.

Lemma lookup_mid k a v b : lookup k a = None -> lookup k (a ++ (k, v) :: b) = Some v.
Proof. intros H. rewrite lookup_app, H. cbn. now rewrite str_eqb_refl. Qed.

Lemma lookup_drop_mid k k' a v b : k' <> k -> lookup k (a ++ (k', v) :: b) = lookup k (a ++ b).
Proof. intros H. rewrite !lookup_app. cbn. rewrite (str_eqb_neq _ _ H). reflexivity. Qed.

Lemma map_ext_in' {A B} (f g : A -> B) l : (forall x, In x l -> f x = g x) -> map f l = map g l.
Proof. apply map_ext_in. Qed.

Lemma filter_ext_in' {A} (f g : A -> bool) l : (forall x, In x l -> f x = g x) -> filter f l = filter g l.
Proof. apply filter_ext_in. Qed.

Lemma has_key_cons k k' v l : has_key k ((k', v) :: l) = str_eqb k' k || has_key k l.
Proof. unfold has_key. cbn. destruct (str_eqb k' k); reflexivity. Qed.

(* C06_merge, core: the code's loop computes the specification's merge *)
Theorem override_merge old : forall inj, NoDup (keys old) -> NoDup (keys inj) -> override old inj = merge old inj.
Proof.
  intros inj Ho Hi. rewrite override_is_rec. revert inj Ho Hi.
  induction old as [|[k v] old IH]; intros inj Ho Hi.
  - cbn. unfold merge. cbn [map app]. symmetry. clear. induction inj as [|x l IHl]; cbn; congruence.
  - inversion Ho as [|? ? Hn Ho']; subst. cbn [override_rec fst].
    destruct (find_dup k inj) as [j|] eqn:Ef.
    + destruct (find_dup_some _ _ _ Ef) as (a & vi & b & -> & <- & Hna).
      rewrite nth_app_len, remove_at_app_len.
      assert (Hi' : NoDup (keys (a ++ b))).
      { rewrite keys_app in *. cbn in Hi. now apply NoDup_remove_1 in Hi. }
      assert (Hkb : ~ In k (keys b) /\ ~ In k (keys a)).
      { rewrite keys_app in Hi. cbn in Hi. apply NoDup_remove_2 in Hi. split; intros Hx; apply Hi, in_or_app; auto. }
      rewrite (IH _ Ho' Hi'). unfold merge. cbn [map fst]. rewrite (lookup_mid k a vi b Hna). cbn [app]. f_equal. f_equal.
      * apply map_ext_in'. intros [k1 v1] Hin. cbn [fst].
        assert (k <> k1). { intros ->. apply Hn. apply in_map_iff. now exists (k1, v1). }
        now rewrite (lookup_drop_mid k1 k a vi b) by assumption.
      * rewrite !filter_app. cbn [filter fst]. rewrite has_key_cons, str_eqb_refl. cbn [orb negb].
        f_equal; apply filter_ext_in'; intros [k1 v1] Hin; cbn [fst]; rewrite has_key_cons;
          (rewrite str_eqb_neq; [reflexivity|]); intros <-; destruct Hkb as [Hb Ha];
          [apply Ha|apply Hb]; apply in_map_iff; now exists (k, v1).
    + apply find_dup_none in Ef. rewrite (IH _ Ho' Hi). unfold merge. cbn [map fst]. rewrite Ef. cbn [app]. f_equal. f_equal.
      apply filter_ext_in'. intros [k1 v1] Hin. cbn [fst]. rewrite has_key_cons.
      rewrite str_eqb_neq; [reflexivity|]. intros <-. apply lookup_none_iff in Ef. apply Ef. apply in_map_iff. now exists (k, v1).
Qed.

(* C06_merge *)
Theorem override_meets_spec old inj : NoDup (keys old) -> NoDup (keys inj) -> merge_spec old inj (override old inj).
Proof. intros Ho Hi. rewrite (override_merge old inj Ho Hi). now apply merge_meets_spec. Qed.

Theorem merge_spec_override_unique old inj r : NoDup (keys old) -> NoDup (keys inj) ->
  merge_spec old inj r -> r = override old inj.
Proof. intros Ho Hi H. rewrite (override_merge old inj Ho Hi). now apply merge_spec_unique. Qed.

(* the merge only looks at keys: it commutes with quoting the values *)
Lemma keys_quote l : keys (map quote_item l) = keys l.
Proof. unfold keys. rewrite map_map. reflexivity. Qed.

Lemma lookup_quote k l : lookup k (map quote_item l) = option_map (fun v => QUOTE :: v ++ [QUOTE]) (lookup k l).
Proof. induction l as [|[k' v] l IH]; cbn; [reflexivity|]. destruct (str_eqb k' k); [reflexivity|apply IH]. Qed.

Lemma has_key_quote k l : has_key k (map quote_item l) = has_key k l.
Proof. unfold has_key. rewrite lookup_quote. now destruct (lookup k l). Qed.

Lemma merge_quote old inj : merge (map quote_item old) (map quote_item inj) = map quote_item (merge old inj).
Proof.
  unfold merge. rewrite map_app, !map_map. f_equal.
  - apply map_ext. intros [k v]. cbn [fst quote_item]. rewrite lookup_quote. now destruct (lookup k inj).
  - induction inj as [|[k v] inj IH]; cbn [map filter fst quote_item]; [reflexivity|].
    rewrite has_key_quote. destruct (has_key k old); cbn [negb]; [apply IH|]. cbn [map]. now rewrite IH.
Qed.

(* ================= C07: idempotence of the merge ================= *)

Lemma merge_nil_r old : merge old [] = old.
Proof. unfold merge. cbn. rewrite app_nil_r. rewrite <- (map_id old) at 2. apply map_ext. now intros [k v]. Qed.

Lemma in_merge it old inj : In it (merge old inj) ->
  (exists o, In o old /\ fst it = fst o /\ (lookup (fst o) inj = Some (snd it) \/ (lookup (fst o) inj = None /\ it = o)))
  \/ (In it inj /\ has_key (fst it) old = false).
Proof.
  unfold merge. intros H. apply in_app_or in H as [H|H].
  - left. apply in_map_iff in H as (o & E & Ho). exists o. split; [assumption|].
    destruct (lookup (fst o) inj) eqn:El; subst it; cbn; auto.
  - right. apply filter_In in H as [H1 H2]. split; [assumption|]. now destruct (has_key (fst it) old).
Qed.

Theorem merge_idempotent old inj : NoDup (keys old) -> NoDup (keys inj) -> merge (merge old inj) inj = merge old inj.
Proof.
  intros Ho Hi. unfold merge at 1.
  assert (Hfil : filter (fun i => negb (has_key (fst i) (merge old inj))) inj = []).
  { rewrite <- (filter_ext_in' (fun _ => false)).
    - clear. induction inj; cbn; auto.
    - intros [k v] Hin. cbn [fst]. symmetry. apply negb_false_iff. apply has_key_in. rewrite keys_merge.
      destruct (has_key k old) eqn:E.
      + apply in_or_app. left. now apply has_key_in.
      + apply in_or_app. right. apply filter_In. split; [apply in_map_iff; now exists (k, v)|]. now rewrite E. }
  rewrite Hfil, app_nil_r. rewrite <- (map_id (merge old inj)) at 2. apply map_ext_in'.
  intros [k v] Hin. cbn [fst]. apply in_merge in Hin as [(o & Ho1 & Hk & [Hl|[Hl He]])|[Hin Hk]]; cbn [fst snd] in *.
  - subst k. now rewrite Hl.
  - subst o. cbn [fst] in Hl. now rewrite Hl.
  - now rewrite (in_lookup_nodup k v inj Hi Hin).
Qed.

Theorem override_idempotent old inj : NoDup (keys old) -> NoDup (keys inj) ->
  override (override old inj) inj = override old inj.
Proof.
  intros Ho Hi. rewrite (override_merge old inj Ho Hi).
  rewrite override_merge; [now apply merge_idempotent| |assumption].
  apply (ms_nodup _ _ _ (merge_meets_spec old inj Ho Hi)).
Qed.

(* the domain is closed under the merge *)
Lemma wf_items_split l : wf_items l = true -> forallb conv_item l = true /\ NoDup (keys l).
Proof. unfold wf_items. intros H. apply andb_prop in H as [H1 H2]. split; [assumption|now apply nodup_keysb_iff]. Qed.

Lemma wf_items_merge old inj : wf_items old = true -> wf_items inj = true -> wf_items (merge old inj) = true.
Proof.
  intros Ho Hi. destruct (wf_items_split _ Ho) as [Hco Hdo]. destruct (wf_items_split _ Hi) as [Hci Hdi].
  unfold wf_items. apply andb_true_intro. split.
  - apply forallb_forall. intros [k v] Hin. rewrite forallb_forall in Hco, Hci.
    apply in_merge in Hin as [(o & Ho1 & Hk & [Hl|[Hl He]])|[Hin Hk]]; cbn [fst snd] in *.
    + specialize (Hco o Ho1). apply lookup_in in Hl. specialize (Hci _ Hl). unfold conv_item in *. cbn [fst snd] in *.
      apply andb_prop in Hco as [Hco _]. apply andb_prop in Hci as [_ Hci]. subst k. now rewrite Hco, Hci.
    + subst o. now apply Hco.
    + now apply Hci.
  - apply nodup_keysb_iff. apply (ms_nodup _ _ _ (merge_meets_spec old inj Hdo Hdi)).
Qed.

Lemma merge_nonempty old inj : old <> [] -> merge old inj <> [].
Proof. destruct old; [congruence|]. unfold merge. cbn. discriminate. Qed.

Lemma wf_field_inject fd : wf_field fd = true -> wf_field (inject_field fd) = true.
Proof.
  unfold wf_field, inject_field. destruct (f_tag fd) as [old|] eqn:Et; [|now rewrite Et].
  destruct (f_cmt fd) as [|t|lead inj trail] eqn:Ec; cbn [f_tag f_cmt]; rewrite ?Et, ?Ec; try tauto.
  intros H. do 5 (apply andb_prop in H as [H ?]). cbn [f_pre].
  rewrite wf_items_merge by assumption.
  match goal with Hn : negb (is_nil old) = true |- _ => apply negb_true_iff, is_nil_false in Hn; pose proof (merge_nonempty old inj Hn) as Hm end.
  apply is_nil_false in Hm. rewrite Hm. cbn [negb andb].
  repeat match goal with Hx : ?t = true |- context [?t] => rewrite Hx end. reflexivity.
Qed.

Lemma wf_file_inject f : wf_file f = true -> wf_file (inject_file f) = true.
Proof.
  unfold wf_file, inject_file. induction f as [|e f IH]; cbn; [reflexivity|]. intros H. apply andb_prop in H as [H1 H2].
  rewrite (IH H2), andb_true_r. destruct e as [b|fd]; cbn; [reflexivity|now apply wf_field_inject].
Qed.

Lemma inject_field_idem fd : wf_field fd = true -> inject_field (inject_field fd) = inject_field fd.
Proof.
  unfold wf_field, inject_field. destruct (f_tag fd) as [old|] eqn:Et; [|now rewrite Et].
  destruct (f_cmt fd) as [|t|lead inj trail] eqn:Ec; cbn [f_tag f_cmt f_pre f_gap]; rewrite ?Et, ?Ec; try reflexivity.
  intros H. do 5 (apply andb_prop in H as [H ?]).
  repeat match goal with Hw : wf_items _ = true |- _ => apply wf_items_split in Hw as [? ?] end.
  now rewrite merge_idempotent.
Qed.

(* C07_idempotent_abstract *)
Theorem inject_file_idempotent f : wf_file f = true -> inject_file (inject_file f) = inject_file f.
Proof.
  unfold wf_file, inject_file. induction f as [|e f IH]; cbn; [reflexivity|]. intros H. apply andb_prop in H as [H1 H2].
  rewrite (IH H2). f_equal. destruct e as [b|fd]; cbn; [reflexivity|]. f_equal. now apply inject_field_idem.
Qed.

Theorem inject_file_iter f n : wf_file f = true -> Nat.iter (S n) inject_file f = inject_file f.
Proof.
  intros H. induction n as [|n IH]; [reflexivity|].
  change (Nat.iter (S (S n)) inject_file f) with (inject_file (Nat.iter (S n) inject_file f)).
  rewrite IH. now apply inject_file_idempotent.
Qed.

(* ================= the splice ================= *)

Lemma last_app_one {A} (l : list A) x d : last (l ++ [x]) d = x.
Proof. induction l as [|y l IH]; [reflexivity|]. cbn [app]. destruct (l ++ [x]) eqn:E; [destruct l; discriminate|]. exact IH. Qed.

(* the leftmost match of rInject in "pre `lit`" is the literal *)
Lemma replace_literal pre lit repl : pre_ok pre = true -> lit <> [] -> nomem NL lit = true ->
  replace_trailing_literal (pre ++ BT :: lit ++ [BT]) repl = pre ++ repl.
Proof.
  intros Hp Hl Hn. induction pre as [|c pre IH].
  - cbn [app]. destruct lit as [|l0 lit]; [congruence|].
    assert (E : inject_match_here (BT :: (l0 :: lit) ++ [BT]) = true).
    { unfold inject_match_here. rewrite N.eqb_refl, last_app_one, N.eqb_refl, nomem_app, Hn.
      rewrite app_length. cbn [length]. replace (Nat.leb 2 (S (length lit) + 1)) with true by (symmetry; apply Nat.leb_le; lia).
      reflexivity. }
    cbn [replace_trailing_literal]. cbn [app] in E |- *.
    unfold replace_trailing_literal. now rewrite E.
  - cbn [pre_ok] in Hp. apply andb_prop in Hp as [Hc Hp].
    assert (E : inject_match_here ((c :: pre) ++ BT :: lit ++ [BT]) = false).
    { cbn [app]. unfold inject_match_here. destruct (c =? BT) eqn:Ec; [|reflexivity].
      rewrite nomem_app. apply negb_true_iff in Hc. rewrite Hc, andb_false_r. reflexivity. }
    cbn [app] in E |- *. cbn [replace_trailing_literal]. rewrite E. f_equal. now apply IH.
Qed.

Lemma slice_mid (p e r : str) :
  slice (p ++ e ++ r) (Z.of_nat (length p)) (Z.of_nat (length p + length e)) = Ok e.
Proof.
  unfold slice. rewrite !app_length.
  replace ((0 <=? Z.of_nat (length p))%Z) with true by (symmetry; apply Z.leb_le; lia).
  replace ((Z.of_nat (length p) <=? Z.of_nat (length p + length e))%Z) with true by (symmetry; apply Z.leb_le; lia).
  replace ((Z.of_nat (length p + length e) <=? Z.of_nat (length p + (length e + length r)))%Z) with true by (symmetry; apply Z.leb_le; lia).
  cbn [andb]. rewrite Nat2Z.id. replace (Z.to_nat (Z.of_nat (length p + length e) - Z.of_nat (length p))) with (length e) by lia.
  rewrite skipn_app_len0, firstn_app_len. reflexivity.
Qed.

Lemma slice_prefix (p r : str) : slice (p ++ r) 0 (Z.of_nat (length p)) = Ok p.
Proof.
  unfold slice. rewrite app_length.
  replace ((0 <=? Z.of_nat (length p))%Z) with true by (symmetry; apply Z.leb_le; lia).
  replace ((Z.of_nat (length p) <=? Z.of_nat (length p + length r))%Z) with true by (symmetry; apply Z.leb_le; lia).
  cbn [andb Z.leb Z.compare]. replace (Z.to_nat (Z.of_nat (length p) - 0)) with (length p) by lia.
  cbn [Z.to_nat skipn]. rewrite firstn_app_len. reflexivity.
Qed.

Lemma slice_suffix (p r : str) : slice_from (p ++ r) (Z.of_nat (length p)) = Ok r.
Proof.
  unfold slice_from, slice. rewrite app_length.
  replace ((0 <=? Z.of_nat (length p))%Z) with true by (symmetry; apply Z.leb_le; lia).
  replace ((Z.of_nat (length p) <=? Z.of_nat (length p + length r))%Z) with true by (symmetry; apply Z.leb_le; lia).
  rewrite Z.leb_refl. cbn [andb]. rewrite Nat2Z.id.
  replace (Z.to_nat (Z.of_nat (length p + length r) - Z.of_nat (length p))) with (length r) by lia.
  rewrite skipn_app_len0. apply f_equal. apply firstn_all.
Qed.

(* injectTag on contents = P ++ E ++ R with the area spanning E *)
Lemma inject_tag_at (P E R cur inj : str) :
  inject_tag (P ++ E ++ R) (mkArea (Z.of_nat (length P) + 1) (Z.of_nat (length P + length E) + 1) cur inj) =
  Ok (P ++ replace_trailing_literal E (BT :: format (override (scan_tags cur) (scan_tags inj)) ++ [BT]) ++ R).
Proof.
  unfold inject_tag. cbn [a_start a_end a_cur a_inj].
  replace (Z.of_nat (length P) + 1 - 1)%Z with (Z.of_nat (length P)) by lia.
  replace (Z.of_nat (length P + length E) + 1 - 1)%Z with (Z.of_nat (length P + length E)) by lia.
  rewrite slice_mid. cbn [bind]. rewrite slice_prefix. cbn [bind].
  rewrite (app_assoc P E R). rewrite <- (app_length P E). rewrite slice_suffix. reflexivity.
Qed.

Lemma write_loop_app c l1 l2 : write_loop c (l1 ++ l2) = (c' <- write_loop c l1 ;; write_loop c' l2).
Proof.
  revert c; induction l1 as [|a l1 IH]; intros c; cbn [app write_loop bind]; [reflexivity|].
  destruct (inject_tag c a); cbn [bind]; auto.
Qed.

(* the comment scanner on the abstract comments *)
Lemma has_prefix_app_l s r p : (length p <= length s)%nat -> has_prefix (s ++ r) p = has_prefix s p.
Proof.
  revert s; induction p as [|c p IH]; intros s H; [destruct s, r; reflexivity|].
  destruct s as [|x s]; cbn in H; [lia|]. cbn. now rewrite IH by lia.
Qed.

Lemma index_app_first sub a rest : sub <> [] -> index sub (a ++ sub) = Some (length a) ->
  index sub (a ++ sub ++ rest) = Some (length a).
Proof.
  intros Hs. induction a as [|x a IH]; intros H.
  - cbn [app length]. assert (E : has_prefix (sub ++ rest) sub = true).
    { rewrite has_prefix_app_l by lia. clear. induction sub; cbn; [reflexivity|]. now rewrite N.eqb_refl. }
    destruct (sub ++ rest) eqn:Er; cbn [index]; now rewrite E.
  - cbn [app length] in *. cbn [index] in *.
    destruct (has_prefix (x :: a ++ sub) sub) eqn:E; [discriminate|].
    assert (E' : has_prefix (x :: a ++ sub ++ rest) sub = false).
    { change (x :: a ++ sub ++ rest) with ((x :: a) ++ sub ++ rest). rewrite app_assoc.
      rewrite has_prefix_app_l; [exact E|]. cbn. rewrite app_length. lia. }
    rewrite E'. destruct (index sub (a ++ sub)) as [n|] eqn:En; [|discriminate]. cbn in H. inversion H; subst n.
    now rewrite (IH eq_refl).
Qed.

Lemma tag_from_comment_ctag lead X : lead_ok lead = true -> tag_from_comment (lead ++ AT_TAG ++ X) = first_line X.
Proof.
  unfold lead_ok. intros H. destruct (index AT_TAG (lead ++ AT_TAG)) as [n|] eqn:E; [|discriminate].
  apply Nat.eqb_eq in H. subst n. unfold tag_from_comment.
  rewrite (index_app_first AT_TAG lead X) by (discriminate || assumption).
  rewrite app_assoc. replace (length lead + 5)%nat with (length (lead ++ AT_TAG)) by (rewrite app_length; reflexivity).
  now rewrite skipn_app_len0.
Qed.

Lemma tag_from_comment_plain t : contains t AT_TAG = false -> tag_from_comment t = [].
Proof. unfold contains, tag_from_comment. now destruct (index AT_TAG t). Qed.

Lemma first_line_app a b : nomem NL a = true -> first_line (a ++ b) = a ++ first_line b.
Proof.
  unfold nomem. induction a as [|c a IH]; cbn; [reflexivity|]. intros H. apply andb_prop in H as [Hc Ha].
  apply negb_true_iff in Hc. rewrite Hc. now rewrite IH.
Qed.

Lemma nomem_word c k : is_word c = false -> forallb is_word k = true -> nomem c k = true.
Proof.
  intros Hc Hk. unfold nomem. rewrite forallb_forall in *. intros x Hx. rewrite (is_word_not x c Hc (Hk x Hx)). reflexivity.
Qed.

Lemma format_items_nonl items : forallb conv_item items = true -> nomem NL (format_items items) = true.
Proof.
  unfold format_items. induction items as [|it items IH]; intros H; [reflexivity|].
  cbn [forallb] in H. apply andb_prop in H as [Hit H]. unfold conv_item in Hit. apply andb_prop in Hit as [Hk Hb].
  destruct (conv_body_split _ Hb) as (_ & _ & Hnl). unfold conv_key in Hk. apply andb_prop in Hk as [_ Hk].
  assert (Hi : nomem NL (fmt_item it) = true).
  { unfold fmt_item. rewrite nomem_app, (nomem_word NL _ eq_refl Hk).
    change (COLON :: QUOTE :: snd it ++ [QUOTE]) with ([COLON; QUOTE] ++ snd it ++ [QUOTE]).
    rewrite !nomem_app, Hnl. reflexivity. }
  destruct items as [|it2 items]; [exact Hi|].
  cbn [map] in IH |- *.
  change (join [SPACE] (fmt_item it :: fmt_item it2 :: map fmt_item items))
    with (fmt_item it ++ [SPACE] ++ join [SPACE] (fmt_item it2 :: map fmt_item items)).
  rewrite !nomem_app, Hi, (IH H). reflexivity.
Qed.

Lemma format_items_nonempty items : forallb conv_item items = true -> items <> [] -> format_items items <> [].
Proof.
  destruct items as [|it items]; [congruence|]. intros H _. cbn [forallb] in H. apply andb_prop in H as [Hit _].
  unfold conv_item, conv_key in Hit. unfold format_items. cbn [map]. unfold fmt_item at 1.
  destruct (fst it) as [|k0 k]; [discriminate|]. destruct (map fmt_item items); cbn; discriminate.
Qed.

Lemma first_line_nonl s : nomem NL (first_line s) = true.
Proof. unfold nomem. induction s as [|c s IH]; cbn; [reflexivity|]. destruct (c =? NL) eqn:E; cbn; [reflexivity|]. now rewrite E, IH. Qed.

Lemma slice_strip (l : str) : slice (BT :: l ++ [BT]) 1 (Z.of_nat (length (BT :: l ++ [BT])) - 1) = Ok l.
Proof.
  pose proof (slice_mid [BT] l [BT]) as H. cbn [length app] in H |- *. rewrite app_length. cbn [length].
  replace (Z.of_nat (S (length l + 1)) - 1)%Z with (Z.of_nat (1 + length l)) by lia. exact H.
Qed.

Lemma slice_strip_literal items :
  slice (render_literal items) 1 (Z.of_nat (length (render_literal items)) - 1) = Ok (format_items items).
Proof. unfold render_literal. apply slice_strip. Qed.

(* the new literal the code writes for an annotated field of the domain *)
Lemma new_literal old inj trail : wf_items old = true -> wf_items inj = true -> trail_ok trail = true ->
  BT :: format (override (scan_tags (format_items old)) (scan_tags (format_items inj ++ first_line trail))) ++ [BT]
  = render_literal (merge old inj).
Proof.
  intros Ho Hi Ht. destruct (wf_items_split _ Ho) as [Hco Hdo]. destruct (wf_items_split _ Hi) as [Hci Hdi].
  rewrite (scan_tags_format old Hco), (scan_tags_format_trail inj _ Hci).
  unfold scan_tags at 1. rewrite (find_tags_noquote _ Ht). cbn [map]. rewrite app_nil_r.
  rewrite override_merge by (now rewrite keys_quote).
  rewrite merge_quote, format_quote. reflexivity.
Qed.

Lemma render_cons e f : render (e :: f) = render_elem e ++ render f.
Proof. reflexivity. Qed.

Lemma inject_file_cons e f : inject_file (e :: f) = inject_elem e :: inject_file f.
Proof. reflexivity. Qed.

(* C06_splice_frame, generalised over the bytes before the part still to be processed *)
Lemma splice_gen f : wf_file f = true -> forall P,
  exists areas, collect_fields (fields_from (length P) f) = Ok areas /\
                write_loop (P ++ render f) (rev areas) = Ok (P ++ render (inject_file f)).
Proof.
  unfold wf_file. induction f as [|e f IH]; intros Hwf P.
  - exists []. split; reflexivity.
  - cbn [forallb] in Hwf. apply andb_prop in Hwf as [He Hf]. specialize (IH Hf).
    destruct e as [b|fd].
    + (* raw bytes *)
      destruct (IH (P ++ b)) as (areas & Hc & Hw). exists areas. cbn [fields_from].
      rewrite app_length in Hc. split; [exact Hc|].
      rewrite inject_file_cons. cbn [inject_elem]. rewrite !render_cons. cbn [render_elem]. rewrite !app_assoc. exact Hw.
    + (* a visited field *)
      destruct (IH (P ++ render_field fd)) as (areas & Hc & Hw). rewrite app_length in Hc.
      rewrite <- !app_assoc in Hw.
      cbn [fields_from collect_fields af_tag].
      rewrite inject_file_cons. cbn [inject_elem]. rewrite !render_cons. cbn [render_elem].
      cbn [wf_elem] in He. unfold wf_field in He. unfold inject_field.
      destruct (f_tag fd) as [old|] eqn:Et.
      2:{ (* no tag literal: skipped *)
          cbn [option_map]. exists areas. split; [exact Hc|]. exact Hw. }
      cbn [option_map]. rewrite Hc.
      destruct (f_cmt fd) as [|t|lead inj trail] eqn:Ec.
      * (* no comment *)
        cbn [af_comments collect_comments bind app]. exists areas. split; [reflexivity|]. exact Hw.
      * (* a comment without "@tag " *)
        cbn [af_comments collect_comments render_comment]. rewrite (tag_from_comment_plain t) by (now apply negb_true_iff).
        cbn [bind app]. exists areas. split; [reflexivity|]. exact Hw.
      * (* an annotated field *)
        do 5 (apply andb_prop in He as [He ?]).
        match goal with Hn : negb (is_nil old) = true |- _ => apply negb_true_iff, is_nil_false in Hn; rename Hn into Hold end.
        match goal with Hl : lead_ok lead = true |- _ => rename Hl into Hlead end.
        match goal with Hl : trail_ok trail = true |- _ => rename Hl into Htrail end.
        match goal with Hl : pre_ok _ = true |- _ => rename Hl into Hpre end.
        match goal with Hl : wf_items inj = true |- _ => rename Hl into Hinj end.
        destruct (wf_items_split _ He) as [Hco Hdo]. destruct (wf_items_split _ Hinj) as [Hci Hdi].
        cbn [af_comments af_pos af_end collect_comments render_comment].
        rewrite (tag_from_comment_ctag lead _ Hlead), (first_line_app _ trail (format_items_nonl inj Hci)).
        assert (Hfield : render_field fd = (f_pre fd ++ render_literal old) ++ f_gap fd ++ render_comment (f_cmt fd)).
        { unfold render_field. rewrite Et. now rewrite <- app_assoc. }
        assert (Hfield' : render_field (mkField (f_pre fd) (Some (merge old inj)) (f_gap fd) (CTag lead inj trail))
                          = (f_pre fd ++ render_literal (merge old inj)) ++ f_gap fd ++ render_comment (f_cmt fd)).
        { unfold render_field. cbn [f_pre f_tag f_gap f_cmt]. rewrite Ec. now rewrite <- app_assoc. }
        destruct (format_items inj ++ first_line trail) as [|t0 tl] eqn:Etag.
        -- (* "@tag " followed by nothing on the line: no area; the merge with nothing is the identity *)
           apply app_eq_nil in Etag as [Ei _].
           assert (inj = []) as ->.
           { destruct inj as [|i0 inj]; [reflexivity|]. exfalso. now apply (format_items_nonempty (i0 :: inj) Hci). }
           rewrite merge_nil_r. cbn [bind app]. exists areas. split; [reflexivity|].
           assert (Efd : mkField (f_pre fd) (Some old) (f_gap fd) (CTag lead [] trail) = fd).
           { destruct fd; cbn in *; congruence. }
           rewrite Efd. exact Hw.
        -- rewrite <- Etag. clear Etag t0 tl.
           rewrite slice_strip_literal. cbn [bind app].
           eexists. split; [reflexivity|].
           cbn [rev]. rewrite write_loop_app. rewrite Hw. cbn [bind write_loop].
           rewrite Hfield. rewrite <- !app_assoc.
           rewrite (app_assoc (f_pre fd) (render_literal old)).
           replace (length (f_pre fd) + length (render_literal old))%nat with (length (f_pre fd ++ render_literal old))
             by apply app_length.
           rewrite inject_tag_at. cbn [bind].
           rewrite Hfield'. rewrite <- !app_assoc.
           unfold render_literal at 1.
           rewrite replace_literal; [|assumption|now apply format_items_nonempty|now apply format_items_nonl].
           rewrite (new_literal old inj trail He Hinj Htrail). rewrite <- !app_assoc. reflexivity.
Qed.

(* C06_splice_frame *)
Theorem splice_frame f : wf_file f = true ->
  exists areas, areas_of f = Ok areas /\ write_file (render f) areas = Ok (render (inject_file f)).
Proof. intros H. destruct (splice_gen f H []) as (areas & H1 & H2). exists areas. split; assumption. Qed.

Theorem tool_run_spec f : wf_file f = true -> tool_run f = Ok (render (inject_file f)).
Proof. intros H. destruct (splice_frame f H) as (areas & H1 & H2). unfold tool_run. rewrite H1. exact H2. Qed.

(* C07_idempotent_bytes: a second run writes the same bytes *)
Theorem tool_run_twice f : wf_file f = true -> tool_run (inject_file f) = Ok (render (inject_file f)).
Proof. intros H. rewrite (tool_run_spec _ (wf_file_inject f H)). now rewrite inject_file_idempotent. Qed.

(* C07_no_annotation *)
Theorem write_file_no_areas b : write_file b [] = Ok b.
Proof. reflexivity. Qed.

Lemma inject_field_plain fd : annotated fd = false -> inject_field fd = fd.
Proof. unfold annotated, inject_field. destruct (f_tag fd); [|reflexivity]. now destruct (f_cmt fd). Qed.

Theorem inject_file_unannotated f :
  forallb (fun e => match e with Raw _ => true | Fld fd => negb (annotated fd) end) f = true -> inject_file f = f.
Proof.
  unfold inject_file. induction f as [|e f IH]; cbn; [reflexivity|]. intros H. apply andb_prop in H as [H1 H2].
  rewrite (IH H2). f_equal. destruct e as [b|fd]; cbn; [reflexivity|]. f_equal. apply inject_field_plain. now apply negb_true_iff.
Qed.

(* C07_converges: the n-th run (n >= 1) on what the previous runs left writes the bytes of the first run *)
Theorem tool_run_converges f n : wf_file f = true ->
  tool_run (Nat.iter n inject_file f) = Ok (render (inject_file f)).
Proof.
  intros H. destruct n as [|n]; [now apply tool_run_spec|].
  rewrite (inject_file_iter f n H). now apply tool_run_twice.
Qed.

(* ================= C06_regex_ref ================= *)
(* the scanners above are written for exactly these expressions; the translator regenerates
   Extracted/SourceRegex.v from file/parse.go on every run *)
Definition word_cls : list (N * N) := [(48, 57); (65, 90); (95, 95); (97, 122)].
Definition rTags_ref : rx :=
  XCat (XPlus (XCls word_cls)) (XCat (XLit [58; 34]) (XCat (XPlus (XCls [(0, 33); (35, 1114111)])) (XLit [34]))).
Definition rInject_ref : rx := XCat (XLit [96]) (XCat (XPlus XAnyNotNL) (XCat (XLit [96]) XEol)).
Definition rComment_ref : rx := XCat (XLit [64; 116; 97; 103; 32]) (XCap (XStar XAnyNotNL)).

Theorem regex_ref : rTags = rTags_ref /\ rInject = rInject_ref /\ rComment = rComment_ref.
Proof. repeat split; reflexivity. Qed.

(* the hand-written character tests are the classes of the reference trees *)
Lemma is_word_cls c : is_word c = in_cls word_cls c.
Proof.
  unfold is_word, in_cls, word_cls. cbn [existsb fst snd]. rewrite orb_false_r.
  assert (E : (c =? 95) = (95 <=? c) && (c <=? 95)).
  { destruct (N.eqb_spec c 95) as [->|Hne]; [reflexivity|].
    destruct (N.leb_spec 95 c) as [H1|H1]; [|reflexivity]. destruct (N.leb_spec c 95) as [H2|H2]; [lia|reflexivity]. }
  rewrite E, !orb_assoc. reflexivity.
Qed.
Lemma is_nq_cls c : (c <= 1114111) -> is_nq c = in_cls [(0, 33); (35, 1114111)] c.
Proof.
  intros Hc. unfold is_nq, in_cls, QUOTE. cbn [existsb fst snd]. rewrite orb_false_r.
  destruct (N.eqb_spec c 34) as [->|Hne]; [reflexivity|]. cbn [negb]. symmetry.
  destruct (N.leb_spec c 33) as [H|H].
  - cbn. replace (0 <=? c) with true by (symmetry; apply N.leb_le; lia). reflexivity.
  - replace (35 <=? c) with true by (symmetry; apply N.leb_le; lia).
    replace (c <=? 1114111) with true by (symmetry; apply N.leb_le; lia). now rewrite orb_true_r.
Qed.
Lemma AT_TAG_lit : AT_TAG = [64; 116; 97; 103; 32].
Proof. reflexivity. Qed.

(* ================= C19 ================= *)

Lemma collect_comments_total fd tagv cs : (2 <= length tagv)%nat -> exists a, collect_comments fd tagv cs = Ok a.
Proof.
  intros Hl. induction cs as [|c cs [a IH]]; [now exists []|].
  cbn [collect_comments]. destruct (tag_from_comment c) as [|t0 t]; [now exists a|].
  unfold slice. replace ((0 <=? 1)%Z) with true by reflexivity.
  replace ((1 <=? Z.of_nat (length tagv) - 1)%Z) with true by (symmetry; apply Z.leb_le; lia).
  replace ((Z.of_nat (length tagv) - 1 <=? Z.of_nat (length tagv))%Z) with true by (symmetry; apply Z.leb_le; lia).
  cbn [andb bind]. rewrite IH. cbn [bind]. eauto.
Qed.

(* go/parser's invariant: a tag is a string literal, so at least its two delimiters *)
Definition lit_ok (fd : afield) : Prop := match af_tag fd with Some t => (2 <= length t)%nat | None => True end.

Lemma collect_fields_total fs : Forall lit_ok fs -> exists a, collect_fields fs = Ok a.
Proof.
  induction fs as [|fd fs IH]; intros H; [now exists []|]. inversion H as [|? ? H1 H2]; subst.
  destruct (IH H2) as [b Hb]. cbn [collect_fields]. unfold lit_ok in H1.
  destruct (af_tag fd) as [t|]; [|eauto].
  destruct (collect_comments_total fd t (af_comments fd) H1) as [a Ha]. rewrite Ha, Hb. cbn [bind]. eauto.
Qed.

Definition decl_ok (d : adecl) : Prop :=
  match d with
  | DFunc => True
  | DGen specs => match first_type_spec specs with Some (TStruct fs) => Forall lit_ok fs | _ => True end
  end.

(* C19_collect_total: no panic on any abstract AST — fields without a tag literal, comments that only
   mention @tag, grouped declarations, non-struct types, functions *)
Theorem collect_decls_total ds : Forall decl_ok ds -> exists a, collect_decls ds = Ok a.
Proof.
  induction ds as [|d ds IH]; intros H; [now exists []|]. inversion H as [|? ? H1 H2]; subst.
  destruct (IH H2) as [b Hb]. cbn [collect_decls]. destruct d as [|specs]; [eauto|].
  unfold decl_ok in H1. destruct (first_type_spec specs) as [[fs|]|]; eauto.
  destruct (collect_fields_total fs H1) as [a Ha]. rewrite Ha, Hb. cbn [bind]. eauto.
Qed.

(* the witness of D22 on the tree before the repair: the same AST makes the unchecked loop panic *)
Definition d22_field : afield := mkAField 30 35 None [s2b "// @tag valid:""required"""].
Lemma d22_panics : is_panic (collect_fields_nocheck [d22_field]) = true /\ collect_fields [d22_field] = Ok [].
Proof. split; vm_compute; reflexivity. Qed.

Definition str_dec : forall a b : str, {a = b} + {a <> b} := list_eq_dec N.eq_dec.

Section HandleProofs.
  Variable parse : str -> str -> option (list area).

  (* C19_non_go_untouched *)
  Theorem non_go_untouched fs name : has_suffix name GO_SUFFIX = false -> handle_file parse fs name = Ok (fs, false).
  Proof. intros H. unfold handle_file. now rewrite H. Qed.

  (* C19_unparsable_untouched *)
  Theorem unparsable_untouched fs name b : fs_get fs name = Some b -> parse name b = None ->
    exists m, handle_file parse fs name = Ok (fs, m).
  Proof.
    intros Hg Hp. unfold handle_file. destruct (has_suffix name GO_SUFFIX); cbn [negb]; [|eauto]. rewrite Hg, Hp. eauto.
  Qed.

  Theorem missing_untouched fs name : fs_get fs name = None -> exists m, handle_file parse fs name = Ok (fs, m).
  Proof. intros Hg. unfold handle_file. destruct (has_suffix name GO_SUFFIX); cbn [negb]; [|eauto]. rewrite Hg. eauto. Qed.

  (* what one file becomes, as a function of its own name and bytes only *)
  Definition file_step (name : str) (content : option str) : res (option str) :=
    if negb (has_suffix name GO_SUFFIX) then Ok content
    else match content with
         | None => Ok None
         | Some b => match parse name b with
                     | None => Ok (Some b)
                     | Some areas => b' <- write_file b areas ;; Ok (Some b')
                     end
         end.

  Lemma fs_get_put_same fs p b : fs_get (fs_put fs p b) p = Some b.
  Proof. induction fs as [|[q b0] fs IH]; cbn; [now rewrite str_eqb_refl|].
    destruct (str_eqb q p) eqn:E; cbn; rewrite E; [reflexivity|exact IH]. Qed.
  Lemma fs_get_put_other fs p b q : q <> p -> fs_get (fs_put fs p b) q = fs_get fs q.
  Proof.
    intros Hne. induction fs as [|[q0 b0] fs IH]; cbn.
    - rewrite str_eqb_neq; [reflexivity|congruence].
    - destruct (str_eqb q0 p) eqn:E; cbn.
      + apply str_eqb_eq in E. subst q0. rewrite (str_eqb_neq p q) by congruence. reflexivity.
      + destruct (str_eqb q0 q); [reflexivity|exact IH].
  Qed.

  (* handleFile touches only its own file, and what it does depends only on that file *)
  Lemma handle_file_step fs name :
    match file_step name (fs_get fs name), handle_file parse fs name with
    | Ok c, Ok (fs', _) => fs_get fs' name = c /\ forall q, q <> name -> fs_get fs' q = fs_get fs q
    | Panic _, Panic _ => True
    | OutOfFuel, OutOfFuel => True
    | _, _ => False
    end.
  Proof.
    unfold file_step, handle_file. destruct (has_suffix name GO_SUFFIX); cbn [negb]; [|auto].
    destruct (fs_get fs name) as [b|] eqn:Eg; [|auto].
    destruct (parse name b) as [areas|]; [|auto].
    destruct (write_file b areas) as [b'| |]; cbn [bind]; auto.
    split; [apply fs_get_put_same|]. intros q Hq. now apply fs_get_put_other.
  Qed.

  (* C19_isolation: a run over distinct names is the map-wise application of file_step to the
     ORIGINAL contents: no file's outcome depends on another file or on the order *)
  Theorem handle_list_mapwise names : NoDup names -> forall fs,
    (forall n, In n names -> is_ok (file_step n (fs_get fs n)) = true) ->
    exists fs', handle_list parse fs names = Ok fs' /\
      forall q, if in_dec str_dec q names
                then file_step q (fs_get fs q) = Ok (fs_get fs' q)
                else fs_get fs' q = fs_get fs q.
  Proof.
    induction names as [|n names IH]; intros Hd fs Hok.
    - exists fs. split; [reflexivity|]. intros q. destruct (in_dec str_dec q []) as [[]|_]. reflexivity.
    - inversion Hd as [|? ? Hn Hd']; subst. cbn [handle_list].
      pose proof (handle_file_step fs n) as Hs. pose proof (Hok n (or_introl eq_refl)) as Hokn.
      destruct (file_step n (fs_get fs n)) as [c| |] eqn:Ec; try discriminate.
      destruct (handle_file parse fs n) as [[fs1 m]| |]; try contradiction. destruct Hs as [Hs1 Hs2]. cbn [bind fst].
      destruct (IH Hd' fs1) as (fs' & Hr & Hq).
      { intros n' Hin. rewrite Hs2; [apply Hok; now right|]. intros ->. contradiction. }
      exists fs'. split; [exact Hr|]. intros q. specialize (Hq q).
      destruct (in_dec str_dec q (n :: names)) as [Hin|Hnin].
      + destruct (str_dec q n) as [->|Hne].
        * destruct (in_dec str_dec n names) as [Hc|_]; [contradiction|]. rewrite Ec, Hq, Hs1. reflexivity.
        * destruct (in_dec str_dec q names) as [_|Hc]; [|exfalso; destruct Hin; [congruence|contradiction]].
          rewrite <- (Hs2 q Hne). exact Hq.
      + destruct (in_dec str_dec q names) as [Hc|_]; [exfalso; apply Hnin; now right|].
        rewrite Hq. apply Hs2. intros ->. apply Hnin. now left.
  Qed.

  (* a panic in one file is the only thing that ends a run early *)
  Theorem handle_list_panic names : forall fs, is_panic (handle_list parse fs names) = true ->
    exists n fs0, In n names /\ is_panic (handle_file parse fs0 n) = true.
  Proof.
    induction names as [|n names IH]; intros fs H; [discriminate|]. cbn [handle_list] in H.
    destruct (handle_file parse fs n) as [[fs1 m]| |] eqn:E; cbn [bind fst] in H; try discriminate.
    - destruct (IH fs1 H) as (n' & fs0 & Hin & Hp). exists n', fs0. split; [now right|assumption].
    - exists n, fs. split; [now left|]. now rewrite E.
  Qed.

  (* the same for the two loops of main.go *)
  Corollary handle_pattern_mapwise names fs : NoDup names ->
    (forall n, In n names -> is_ok (file_step n (fs_get fs n)) = true) ->
    exists fs', handle_pattern parse fs names = Ok (fs', negb (is_nil names)) /\
      forall q, if in_dec str_dec q names then file_step q (fs_get fs q) = Ok (fs_get fs' q)
                else fs_get fs' q = fs_get fs q.
  Proof.
    intros Hd Hok. destruct (handle_list_mapwise names Hd fs Hok) as (fs' & Hr & Hq).
    exists fs'. unfold handle_pattern. rewrite Hr. cbn [bind]. auto.
  Qed.

  Definition dir_names (dir : str) (entries : list (str * bool)) : list str :=
    map (fun e => handle_path dir ++ fst e) (filter (fun e => negb (snd e)) entries).

  Corollary handle_dir_mapwise dir entries fs : NoDup (dir_names dir entries) ->
    (forall n, In n (dir_names dir entries) -> is_ok (file_step n (fs_get fs n)) = true) ->
    exists fs' m, handle_dir parse fs dir entries = Ok (fs', m) /\
      forall q, if in_dec str_dec q (dir_names dir entries) then file_step q (fs_get fs q) = Ok (fs_get fs' q)
                else fs_get fs' q = fs_get fs q.
  Proof.
    intros Hd Hok. destruct (handle_list_mapwise _ Hd fs Hok) as (fs' & Hr & Hq).
    exists fs'. unfold handle_dir. fold (dir_names dir entries). rewrite Hr. cbn [bind]. eauto.
  Qed.

  (* ... in any order: two runs over permuted name lists leave every path with the same content *)
  Corollary handle_list_order names names' fs : NoDup names -> Permutation names names' ->
    (forall n, In n names -> is_ok (file_step n (fs_get fs n)) = true) ->
    exists fs1 fs2, handle_list parse fs names = Ok fs1 /\ handle_list parse fs names' = Ok fs2 /\
                    forall q, fs_get fs1 q = fs_get fs2 q.
  Proof.
    intros Hd Hp Hok.
    assert (Hd' : NoDup names') by (eapply Permutation_NoDup; eassumption).
    assert (Hok' : forall n, In n names' -> is_ok (file_step n (fs_get fs n)) = true).
    { intros n Hin. apply Hok. eapply Permutation_in; [apply Permutation_sym; eassumption|assumption]. }
    destruct (handle_list_mapwise names Hd fs Hok) as (fs1 & Hr1 & Hq1).
    destruct (handle_list_mapwise names' Hd' fs Hok') as (fs2 & Hr2 & Hq2).
    exists fs1, fs2. repeat split; try assumption. intros q. specialize (Hq1 q). specialize (Hq2 q).
    destruct (in_dec str_dec q names) as [Hi|Hn], (in_dec str_dec q names') as [Hi'|Hn'].
    - rewrite Hq1 in Hq2. now inversion Hq2.
    - exfalso. apply Hn'. eapply Permutation_in; eassumption.
    - exfalso. apply Hn. eapply Permutation_in; [apply Permutation_sym; eassumption|assumption].
    - congruence.
  Qed.
End HandleProofs.

(* the tool on a file of the domain is a total step: with the real areas nothing panics *)
Lemma file_step_domain parse name f areas : wf_file f = true -> areas_of f = Ok areas ->
  parse name (render f) = Some areas -> has_suffix name GO_SUFFIX = true ->
  file_step parse name (Some (render f)) = Ok (Some (render (inject_file f))).
Proof.
  intros Hwf Ha Hp Hs. unfold file_step. rewrite Hs, Hp. cbn [negb].
  destruct (splice_frame f Hwf) as (areas' & Ha' & Hw). rewrite Ha in Ha'. inversion Ha'; subst areas'.
  now rewrite Hw.
Qed.


(* ================= C07 for whole runs: a second run over the same names changes nothing ================= *)
Section RunTwice.
  Variable parse : str -> str -> option (list area).

  (* a step is settled when repeating it on its own result gives that result again *)
  Definition settles (n : str) (c : option str) : Prop :=
    exists c', file_step parse n c = Ok c' /\ file_step parse n c' = Ok c'.

  Theorem handle_list_twice names : NoDup names -> forall fs,
    (forall n, In n names -> settles n (fs_get fs n)) ->
    exists fs1 fs2, handle_list parse fs names = Ok fs1 /\ handle_list parse fs1 names = Ok fs2 /\
                    forall q, fs_get fs2 q = fs_get fs1 q.
  Proof.
    intros Hd fs Hs.
    assert (Hok : forall n, In n names -> is_ok (file_step parse n (fs_get fs n)) = true).
    { intros n Hin. destruct (Hs n Hin) as (c' & E & _). now rewrite E. }
    destruct (handle_list_mapwise parse names Hd fs Hok) as (fs1 & Hr1 & Hq1).
    assert (Hstep : forall n, In n names -> file_step parse n (fs_get fs1 n) = Ok (fs_get fs1 n)).
    { intros n Hin. destruct (Hs n Hin) as (c' & E1 & E2). specialize (Hq1 n).
      destruct (in_dec str_dec n names) as [_|Hn]; [|contradiction]. rewrite E1 in Hq1. inversion Hq1; subst c'. exact E2. }
    assert (Hok1 : forall n, In n names -> is_ok (file_step parse n (fs_get fs1 n)) = true).
    { intros n Hin. now rewrite (Hstep n Hin). }
    destruct (handle_list_mapwise parse names Hd fs1 Hok1) as (fs2 & Hr2 & Hq2).
    exists fs1, fs2. repeat split; try assumption. intros q. specialize (Hq2 q).
    destruct (in_dec str_dec q names) as [Hin|Hn]; [|assumption].
    rewrite (Hstep q Hin) in Hq2. now inversion Hq2.
  Qed.

  (* every kind of file settles: not a .go name, missing, unparsable, ... *)
  Lemma settles_non_go n c : has_suffix n GO_SUFFIX = false -> settles n c.
  Proof. intros H. exists c. unfold file_step. rewrite H. auto. Qed.
  Lemma settles_missing n : settles n None.
  Proof. exists None. unfold file_step. destruct (has_suffix n GO_SUFFIX); auto. Qed.
  Lemma settles_unparsable n b : parse n b = None -> settles n (Some b).
  Proof. intros H. exists (Some b). unfold file_step. destruct (has_suffix n GO_SUFFIX); cbn [negb]; [rewrite H|]; auto. Qed.
  (* ... and a file of C06's domain, when the oracle returns what go/parser is expected to return
     for the file and for its injected version *)
  Lemma settles_domain n f a a' : wf_file f = true -> has_suffix n GO_SUFFIX = true ->
    areas_of f = Ok a -> parse n (render f) = Some a ->
    areas_of (inject_file f) = Ok a' -> parse n (render (inject_file f)) = Some a' ->
    settles n (Some (render f)).
  Proof.
    intros Hwf Hs Ha Hp Ha' Hp'. exists (Some (render (inject_file f))). split.
    - now apply (file_step_domain parse n f a).
    - pose proof (file_step_domain parse n (inject_file f) a' (wf_file_inject f Hwf) Ha' Hp' Hs) as H.
      now rewrite (inject_file_idempotent f Hwf) in H.
  Qed.
End RunTwice.

(* ================= witnesses of the recorded findings (byte level; the model is faithful there) ================= *)

(* an EMPTY tag literal is never rewritten: rInject needs at least one byte between the back quotes *)
Example finding_empty_literal :
  let src := s2b "package p
type A struct {
	E int `` // @tag a:""b""
}
" in write_file src [mkArea 28 36 [] (s2b "a:""b""")] = Ok src.
Proof. vm_compute. reflexivity. Qed.

(* a tag written as an interpreted string literal is never rewritten: rInject looks for back quotes *)
Example finding_quoted_literal :
  let src := s2b "package p
type A struct {
	E int ""json:""x"""" // @tag a:""b""
}
" in write_file src [mkArea 28 46 (s2b "json:""x""") (s2b "a:""b""")] = Ok src.
Proof. vm_compute. reflexivity. Qed.

(* a back quote earlier on the line of the literal (inline struct type with its own tags): the
   leftmost match starts there and the field's type is overwritten *)
Example finding_backquote_in_type :
  write_file (s2b "package p
type A struct {
	E struct{ X int `json:""x""` } `json:""e""` // @tag a:""b""
}
") [mkArea 28 67 (s2b "json:""e""") (s2b "a:""b""")]
  = Ok (s2b "package p
type A struct {
	E struct{ X int `json:""e"" a:""b""` // @tag a:""b""
}
").
Proof. vm_compute. reflexivity. Qed.
