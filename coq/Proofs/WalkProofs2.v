(* Characterising theorems of the validators (C02, C03, C04, C16, C17, C18) *)
From PGV Require Import Base.Bytes Base.GoStr Base.GoNum Base.Utf8 Base.Url.
From PGV Require Import Extracted.SourceConst Extracted.SourceTable.
From PGV Require Import Model.RuleText Model.Value Model.Clause Model.Rules Model.Walk.
From PGV Require Import Proofs.RuleContract Proofs.WalkProofs.

(* ---------------- C02 ---------------- *)

(* nil exactly when nothing was written and no group is violated; group clauses come last *)
Theorem get_error_nil_iff b :
  get_error b = ONil <-> (b_cl b = [] /\ eval_groups (rev (b_gr b)) = []).
Proof.
  unfold get_error. split.
  - destruct (rev (b_cl b) ++ eval_groups (rev (b_gr b))) eqn:E; [|discriminate]. intros _.
    apply app_eq_nil in E as [E1 E2]. split; [|exact E2].
    apply (f_equal (@rev _)) in E1. now rewrite rev_involutive in E1.
  - intros [-> ->]. reflexivity.
Qed.

Theorem get_error_groups_last b cs : get_error b = OClauses cs ->
  cs = rev (b_cl b) ++ eval_groups (rev (b_gr b)).
Proof. unfold get_error. destruct (rev (b_cl b) ++ _) eqn:E; [discriminate|]. now intros [= <-]. Qed.

(* no early exit: the rules of a field are all evaluated, left to right *)
Theorem on_rules_app c rec sn fname fv vns1 vns2 b :
  on_rules c rec sn fname fv (vns1 ++ vns2) b =
  (b1 <- on_rules c rec sn fname fv vns1 b ;; on_rules c rec sn fname fv vns2 b1).
Proof.
  revert b; induction vns1 as [|vn vns1 IH]; intros b; cbn [app on_rules bind]; [reflexivity|].
  destruct (on_rule c rec sn fname fv vn b) as [b1| |]; cbn [bind]; [apply IH|reflexivity|reflexivity].
Qed.

Theorem on_fields_app c rec sn cus fs1 fs2 b :
  on_fields c rec sn cus (fs1 ++ fs2) b = (b1 <- on_fields c rec sn cus fs1 b ;; on_fields c rec sn cus fs2 b1).
Proof.
  revert b; induction fs1 as [|[fi fv] fs1 IH]; intros b; cbn [app on_fields bind]; [reflexivity|].
  match goal with |- (b1 <- ?x ;; _) = _ => destruct x as [b1| |] end; cbn [bind]; [apply IH|reflexivity|reflexivity].
Qed.

Lemma get_fn_rule_contract c key f : get_fn c key = FRule f -> contract f.
Proof.
  unfold get_fn. destruct (lookup1 _ (c_local c)) as [[|]|]; try discriminate.
  destruct (lookup1 _ (c_global c)) as [[|]|]; try discriminate.
  destruct (lookup1 _ rule_table) as [[fname'|]|]; try discriminate.
  destruct (fn_by_name (c_orc c) fname') eqn:Ef; intros H; inversion H; subst. eapply table_contract; eassumption.
Qed.

(* a (non-builtin) rule instance on a non-zero value writes what its function returns: at most one
   clause, naming the field *)
Theorem rule_instance_once c rec sn fname fv vn f b :
  vn <> [] -> get_fn c (pk_key vn) = FRule f -> is_zero fv = Ok false ->
  on_rule c rec sn fname fv vn b = Ok (put b (f vn sn fname fv)) /\
  (length (f vn sn fname fv) <= 1)%nat /\
  (forall cl, In cl (f vn sn fname fv) -> clause_names cl = Some (sn, fname)).
Proof.
  intros Hne Hg Hz. unfold on_rule. destruct vn as [|x vn']; [congruence|]. rewrite Hg, Hz. cbn.
  destruct (get_fn_rule_contract c _ f Hg (x :: vn') sn fname fv) as (H1 & H2 & _). auto.
Qed.

Lemma eval_group_once ms : (length (eval_group ms) <= 1)%nat.
Proof.
  unfold eval_group. destruct ms as [|m0 rest]; [cbn; lia|].
  destruct rest; repeat match goal with |- context[if ?x then _ else _] => destruct x end; cbn; lia.
Qed.

(* ---------------- C03 ---------------- *)

(* every rule other than the built-in ones is simply not evaluated on a zero value *)
Theorem zero_skip_struct c rec sn fname fv vn b :
  is_zero fv = Ok true ->
  (exists f, get_fn c (pk_key vn) = FRule f) \/ (exists t, get_fn c (pk_key vn) = FMark t) ->
  on_rule c rec sn fname fv vn b = Ok b.
Proof.
  intros Hz Hf. unfold on_rule. destruct vn; [reflexivity|].
  destruct Hf as [[f ->]|[t ->]]; rewrite Hz; reflexivity.
Qed.
Theorem zero_skip_var c tv vn b :
  is_zero tv = Ok true ->
  (exists f, get_fn c (pk_key vn) = FRule f) \/ (exists t, get_fn c (pk_key vn) = FMark t) ->
  var_rule c tv vn b = Ok b.
Proof.
  intros Hz Hf. unfold var_rule. destruct vn; [reflexivity|].
  destruct Hf as [[f ->]|[t ->]]; rewrite Hz; reflexivity.
Qed.
Theorem zero_skip_map c prefix key v vn b :
  is_zero v = Ok true ->
  (exists f, get_fn c (pk_key vn) = FRule f) \/ (exists t, get_fn c (pk_key vn) = FMark t) ->
  map_rule c prefix key v vn b = Ok b.
Proof.
  intros Hz Hf. unfold map_rule. destruct vn; [reflexivity|].
  destruct Hf as [[f ->]|[t ->]]; rewrite Hz; reflexivity.
Qed.
Theorem zero_skip_url c key vn b :
  (exists f, get_fn c (pk_key vn) = FRule f) \/ (exists t, get_fn c (pk_key vn) = FMark t) ->
  url_rule c key [] vn b = Ok b.
Proof.
  intros Hf. unfold url_rule. destruct vn; [reflexivity|].
  destruct Hf as [[f ->]|[t ->]]; reflexivity.
Qed.

(* required: one clause exactly when the value is empty (zero value, or a slice / array / map
   without elements); otherwise no required clause is written, the value is looked into *)
Definition empty_val (tv : val) (z : bool) : bool :=
  z || match tv with VSlice _ _ _ [] | VArray _ _ [] | VMap _ _ _ [] => true | _ => false end.

Theorem required_iff_empty rec sn field cus tv z b : is_zero tv = Ok z ->
  required rec sn field cus tv b =
  if empty_val tv z then Ok (put b [CValid sn field [] (req_body cus Required)])
  else exist rec false sn field cus tv b.
Proof.
  intros Hz. unfold required, empty_val. rewrite Hz. cbn [bind]. rewrite orb_comm. reflexivity.
Qed.

Theorem required_var c tv vn z b : vn <> [] -> get_fn c (pk_key vn) = FBuiltin -> str_eqb (pk_key vn) Required = true ->
  is_zero tv = Ok z ->
  var_rule c tv vn b =
  Ok (if negb (match tv with VSlice _ _ _ [] | VArray _ _ [] => true | _ => false end) && negb z then b
      else put b [CValid [] [] [] (req_body (pk_msg vn) Required)]).
Proof.
  intros Hne Hg Hr Hz. unfold var_rule. destruct vn; [congruence|]. rewrite Hg, Hr, Hz. cbn [bind].
  match goal with |- context[if ?x then _ else _] => destruct x end; reflexivity.
Qed.

(* ---------------- C04 ---------------- *)

(* a field without required / exist never leads into its sub-objects: the recursive call is not
   used, whatever the field holds *)
Theorem unmarked_never_entered c rec1 rec2 sn fname fv vn b :
  (get_fn c (pk_key vn) <> FBuiltin \/
   (str_eqb (pk_key vn) Required = false /\ str_eqb (pk_key vn) Exist = false)) ->
  on_rule c rec1 sn fname fv vn b = on_rule c rec2 sn fname fv vn b.
Proof.
  intros H. unfold on_rule. destruct vn; [reflexivity|].
  destruct (get_fn c _) eqn:Eg; try reflexivity.
  destruct H as [H|[H1 H2]]; [congruence|]. now rewrite H1, H2.
Qed.

(* unexported fields and time.Time fields are skipped whatever rules they carry *)
Theorem hidden_field_skipped c rec sn cus fi fv fs b :
  f_time fi || negb (is_exported (f_name fi)) = true ->
  on_fields c rec sn cus ((fi, fv) :: fs) b = on_fields c rec sn cus fs b.
Proof. intros H. cbn [on_fields]. rewrite H. reflexivity. Qed.

(* a field without any rule (no tag for this tag name, no programmatic rule) is skipped *)
Theorem untagged_field_skipped c rec sn cus fi fv fs b :
  rm_get cus (f_name fi) = [] -> tag_get (f_tags fi) (c_tag c) = [] ->
  on_fields c rec sn cus ((fi, fv) :: fs) b = on_fields c rec sn cus fs b.
Proof.
  intros H1 H2. cbn [on_fields]. rewrite H1, H2.
  destruct (f_time fi || negb (is_exported (f_name fi))); reflexivity.
Qed.

(* nil or zero sub-objects under exist are skipped silently; a time.Time is never entered *)
Theorem exist_skips_zero rec ivk sn field cus tv b : is_zero tv = Ok true -> exist rec ivk sn field cus tv b = Ok b.
Proof. intros H. unfold exist. now rewrite H. Qed.
Theorem exist_skips_time rec ivk sn field cus z b : exist rec ivk sn field cus (VTime z) b = Ok b.
Proof. unfold exist. cbn. destruct z; reflexivity. Qed.

(* under a mark, a struct reached through any number of pointer levels is validated under the
   path Parent.Field; elements under Parent.Field[i]; map entries under Parent.Field[key] *)
Theorem exist_enters_struct rec ivk sn field cus tv si fs b :
  is_zero tv = Ok false -> remove_ptr tv = VStruct si fs -> (forall z, tv <> VTime z) ->
  (match tv with VPtr _ | VStruct _ _ => True | _ => False end) ->
  exist rec ivk sn field cus tv b = rec (sn ++ DOT :: field) tv false b.
Proof.
  intros Hz Hr Ht Hk. unfold exist. rewrite Hz. cbn [bind].
  destruct tv; try contradiction; rewrite Hr; reflexivity.
Qed.
Theorem exist_enters_slice rec ivk sn field cus isnil ek et vs b :
  is_zero (VSlice isnil ek et vs) = Ok false ->
  exist rec ivk sn field cus (VSlice isnil ek et vs) b = on_elems rec (sn ++ DOT :: field) O vs b.
Proof. intros Hz. unfold exist. rewrite Hz. reflexivity. Qed.
Theorem exist_enters_map rec ivk sn field cus isnil kk t es b :
  is_zero (VMap isnil kk t es) = Ok false ->
  exist rec ivk sn field cus (VMap isnil kk t es) b = on_entries rec (sn ++ DOT :: field) es b.
Proof. intros Hz. unfold exist. rewrite Hz. reflexivity. Qed.

(* every clause written while validating an object carries a path that extends the object's path *)
Theorem clause_paths_extend c fuel sn v g b : wf_val v = true -> (depth v < fuel)%nat ->
  exists b', validate c fuel sn v g b = Ok b' /\
    exists cs gs, b_cl b' = cs ++ b_cl b /\ b_gr b' = gs ++ b_gr b /\
                  Forall (under sn) cs /\ Forall (gunder sn) gs.
Proof. intros Hw Hd. apply (validate_good c fuel sn v g Hw Hd b). Qed.

(* ---------------- C16 ---------------- *)

(* the rule set in force for a struct value *)
Definition effective_rules (c : cfg) (outermost : bool) (tstr : str) : rm :=
  if outermost then match typed_rule c tstr with
                    | [] => match c_unscoped c with Some r => r | None => [] end
                    | r => r
                    end
  else typed_rule c tstr.

Theorem scoping c rec sn si fs g b :
  validate_body c rec sn (VStruct si fs) g b =
  on_fields c rec (match sn with [] => s_name si | _ => sn end)
            (effective_rules c (match sn with [] => true | _ => false end) (s_id si)) fs b.
Proof. unfold validate_body, effective_rules. cbn [remove_ptr]. destruct sn; reflexivity. Qed.

(* a programmatic rule for a field replaces its tag rule entirely; other fields keep theirs *)
Theorem override_replaces c rec sn cus fi fv fs b r0 r :
  f_time fi || negb (is_exported (f_name fi)) = false -> rm_get cus (f_name fi) = r0 :: r ->
  on_fields c rec sn cus ((fi, fv) :: fs) b =
  (b1 <- on_rules c rec sn (f_name fi) fv (names_split COMMA (r0 :: r)) b ;; on_fields c rec sn cus fs b1).
Proof. intros H1 H2. cbn [on_fields]. now rewrite H1, H2. Qed.
Theorem unmentioned_keeps_tag c rec sn cus fi fv fs b t0 t :
  f_time fi || negb (is_exported (f_name fi)) = false -> rm_get cus (f_name fi) = [] ->
  tag_get (f_tags fi) (c_tag c) = t0 :: t ->
  on_fields c rec sn cus ((fi, fv) :: fs) b =
  (b1 <- on_rules c rec sn (f_name fi) fv (names_split COMMA (t0 :: t)) b ;; on_fields c rec sn cus fs b1).
Proof. intros H1 H2 H3. cbn [on_fields]. now rewrite H1, H2, H3. Qed.

(* name resolution: this call's function, else the globally registered one, else the built-in *)
Theorem resolve_order c name :
  get_fn c name =
  match lookup1 name (c_local c) with
  | Some r => match r with FnNil => FBuiltin | FnMark t => FMark t end
  | None =>
    match lookup1 name (c_global c) with
    | Some r => match r with FnNil => FBuiltin | FnMark t => FMark t end
    | None => match lookup1 name rule_table with
              | Some None => FBuiltin
              | Some (Some fname) => match fn_by_name (c_orc c) fname with Some f => FRule f | None => FErr end
              | None => FErr
              end
    end
  end.
Proof. reflexivity. Qed.

(* an unknown name writes one error clause for that field and the walk goes on *)
Theorem unknown_keeps_going c rec sn fname fv vn vns b :
  vn <> [] -> get_fn c (pk_key vn) = FErr ->
  on_rules c rec sn fname fv (vn :: vns) b =
  on_rules c rec sn fname fv vns (put b [CField sn fname (FKnown (not_exist_text (pk_key vn)))]).
Proof. intros Hne Hg. cbn [on_rules]. unfold on_rule. destruct vn; [congruence|]. now rewrite Hg. Qed.

(* ---------------- C17 ---------------- *)

Theorem either_all_empty ms m0 m1 rest : ms = m0 :: m1 :: rest -> str_eqb (pk_key (g_vn m0)) Either = true ->
  eval_group ms = if forallb (fun m => zero_b (g_val m)) ms
                  then [CGroup GEither (map (fun m => (g_obj m, g_field m)) ms)] else [].
Proof. intros -> H. unfold eval_group. now rewrite H. Qed.

Theorem botheq_all_equal ms m0 m1 rest : ms = m0 :: m1 :: rest ->
  str_eqb (pk_key (g_vn m0)) Either = false -> str_eqb (pk_key (g_vn m0)) BothEq = true ->
  eval_group ms = if forallb (fun m => val_eqb (g_val m0) (g_val m)) (m1 :: rest)
                  then [] else [CGroup GBothEq (map (fun m => (g_obj m, g_field m)) ms)].
Proof. intros -> H1 H2. unfold eval_group. now rewrite H1, H2. Qed.

Theorem single_member_is_rule_error m0 :
  str_eqb (pk_key (g_vn m0)) Either = true \/ str_eqb (pk_key (g_vn m0)) BothEq = true ->
  exists r, eval_group [m0] = [CField (g_obj m0) (g_field m0) (FRuleErr r)].
Proof.
  intros H. unfold eval_group. destruct (str_eqb (pk_key (g_vn m0)) Either); [eauto|].
  destruct H as [H|H]; [discriminate|]. rewrite H. eauto.
Qed.

(* groups are formed per object: the key of a group determines the object path and the rule text
   (object paths contain no NUL byte) *)
Lemma gkey_inj o1 v1 o2 v2 : nomem 0%N o1 = true -> nomem 0%N o2 = true ->
  gkey o1 v1 = gkey o2 v2 -> o1 = o2 /\ v1 = v2.
Proof.
  unfold gkey. revert o2. induction o1 as [|a o1 IH]; intros o2 H1 H2 E.
  - destruct o2 as [|b o2]; [cbn in E; inversion E; auto|].
    cbn in E. inversion E; subst. cbn in H2. discriminate.
  - destruct o2 as [|b o2].
    + cbn in E. inversion E; subst. cbn in H1. discriminate.
    + cbn in E. inversion E; subst. cbn in H1, H2. apply andb_prop in H1 as [_ H1]. apply andb_prop in H2 as [_ H2].
      destruct (IH o2 H1 H2 H3) as [-> ->]. auto.
Qed.

(* the evaluation of one group looks at the members with that key only *)
Theorem groups_independent ms :
  eval_groups ms = flat_map (fun k => eval_group (filter (fun m => str_eqb (g_key m) k) ms)) (group_keys ms []).
Proof. reflexivity. Qed.

(* ---------------- C18 ---------------- *)

(* the four validators hand a non-zero scalar to the same rule function; the verdict of that
   function does not depend on the names it is given *)
Theorem same_verdict_everywhere c vn f v s prefix key b1 b2 b3 b4 sn fname rec :
  vn <> [] -> get_fn c (pk_key vn) = FRule f -> is_zero v = Ok false ->
  exists cs1 cs2 cs3,
    on_rule c rec sn fname v vn b1 = Ok (put b1 cs1) /\
    var_rule c v vn b2 = Ok (put b2 cs2) /\
    map_rule c prefix key v vn b3 = Ok (put b3 cs3) /\
    violated cs1 = violated cs2 /\ violated cs2 = violated cs3 /\
    (v = VStr s -> s <> [] ->
     exists cs4, url_rule c key s vn b4 = Ok (put b4 cs4) /\ violated cs3 = violated cs4).
Proof.
  intros Hne Hg Hz. destruct vn as [|x vn']; [congruence|]. set (vn := x :: vn') in *.
  pose proof (get_fn_rule_contract c _ f Hg) as Hc.
  exists (f vn sn fname v), (f vn [] [] v), (f vn [] (map_get_key prefix key) v).
  unfold on_rule, var_rule, map_rule, url_rule. subst vn. rewrite Hg, Hz. cbn [bind].
  repeat split; try reflexivity.
  - apply (proj2 (proj2 (Hc _ sn fname v))).
  - apply (proj2 (proj2 (Hc _ [] [] v))).
  - intros -> Hs. exists (f (x :: vn') [] key (VStr s)). destruct s as [|b0 s]; [congruence|]. split; [reflexivity|].
    apply (proj2 (proj2 (Hc _ [] (map_get_key prefix key) (VStr (b0 :: s))))).
Qed.
