(* C15: custom messages appear verbatim behind their label. *)
From PGV Require Import Base.Bytes Base.GoStr Base.Utf8.
From PGV Require Import Extracted.SourceConst.
From PGV Require Import Model.RuleText Model.Value Model.Clause Model.Rules Model.Walk Spec.RuleTextSpec.
From PGV Require Import Proofs.RuleTextProofs Proofs.RuleContract.

Lemma has_prefix_app p x : has_prefix (p ++ x) p = true.
Proof. induction p as [|c p IH]; cbn; [destruct x; reflexivity|]. now rewrite N.eqb_refl, IH. Qed.

Lemma contains_prefix p x : contains (p ++ x) p = true.
Proof.
  unfold contains. destruct (p ++ x) as [|c r] eqn:E.
  - destruct p; [reflexivity|discriminate].
  - cbn [index]. rewrite <- E, has_prefix_app. reflexivity.
Qed.

(* the label is the Chinese one exactly when the message contains a CJK character *)
Lemma label_choice m : label m = (if existsb is_cjk (decode m) then ExplainZh else ExplainEn) ++ 32%N :: m.
Proof. rewrite label_is_spec. reflexivity. Qed.

Lemma label_has_label m : has_label (label m) = true.
Proof.
  unfold has_label, label. destruct (has_zh m).
  - rewrite (contains_prefix ExplainZh). apply orb_true_r.
  - rewrite (contains_prefix ExplainEn). reflexivity.
Qed.

(* the text of a clause whose rule carried the custom message m: path, echoed input, then the
   label and m verbatim (no default wording, no second label) *)
Theorem custom_clause_text obj field echo m :
  clause_text (CValid obj field echo (VCustom (label m))) =
  Some (quoted_prefix (valid_path obj field) ++ s2b "input """ ++ echo ++ [DQ] ++ s2b ", " ++ label m).
Proof. unfold clause_text. rewrite label_has_label. cbn [app]. now rewrite <- !app_assoc. Qed.

(* which body a rule function gives its clause: the custom message of the rule text when there is
   one, the default wording otherwise (string-kind and os.Stat failures keep their own wording) *)
Definition body_discipline (f : rulefn) : Prop :=
  forall vn obj field v c, In c (f vn obj field v) ->
  match c with
  | CValid _ _ _ (VCustom m) => m = pk_msg vn /\ m <> []
  | CValid _ _ _ (VDefault r) => pk_msg vn = [] \/ r = s2b "notstr" \/ r = s2b "stat"
  | _ => True
  end.

Lemma body_of_disc vn r : match body_of (pk_msg vn) r with
                          | VCustom m => m = pk_msg vn /\ m <> []
                          | VDefault r' => pk_msg vn = [] \/ r' = s2b "notstr" \/ r' = s2b "stat"
                          | VText _ => True
                          end.
Proof. unfold body_of. destruct (pk_msg vn); [now left|split; [reflexivity|discriminate]]. Qed.

Ltac disc_step Hin :=
  match type of Hin with
  | In _ (if ?x then _ else _) => destruct x
  | In _ (match (match ?y with _ => _ end) with _ => _ end) => destruct y
  | In _ (match ?x with _ => _ end) => destruct x
  | _ \/ _ => destruct Hin as [Hin|Hin]
  | False => contradiction
  | In _ [] => destruct Hin
  | _ = _ => subst
  end.
Ltac disc1 := intros vn obj field v c Hin; cbv zeta in Hin;
  repeat (cbn [In] in Hin; cbv zeta in Hin; disc_step Hin);
  try exact I; try (apply body_of_disc); try (right; left; reflexivity); try (right; right; reflexivity).

Lemma str_rule_disc rule ok : body_discipline (str_rule rule ok).
Proof. unfold str_rule, check_is_str. disc1. Qed.
Lemma to_like_disc he : body_discipline (to_like he).
Proof.
  intros vn obj field v c Hin. unfold to_like in Hin.
  destruct (parse_tag_to _ _) as [[mn mx]|e]; [|destruct Hin as [<-|[]]; exact I].
  destruct (valid_input_size mn mx v he) as [[lt gt] vs]. destruct (lt || gt); [|destruct Hin].
  destruct Hin as [<-|[]]. apply body_of_disc.
Qed.
Lemma one_sided_disc lower he rule : body_discipline (one_sided lower he rule).
Proof.
  intros vn obj field v c Hin. unfold one_sided in Hin.
  destruct lower; destruct (valid_input_size _ _ v he) as [[lt gt] vs]; destruct lt, gt; cbn in Hin;
    repeat match type of Hin with _ \/ _ => destruct Hin as [Hin|Hin] end; try contradiction; subst; apply body_of_disc.
Qed.
Lemma eq_like_disc want : body_discipline (eq_like want).
Proof.
  intros vn obj field v c Hin. unfold eq_like in Hin. destruct (Bool.eqb _ want); [destruct Hin|].
  destruct Hin as [<-|[]]. apply body_of_disc.
Qed.
Lemma rInt_disc : body_discipline rInt.
Proof. unfold rInt. disc1. Qed.
Lemma rFloat_disc : body_discipline rFloat.
Proof. unfold rFloat. disc1. Qed.
Lemma rUnique_disc : body_discipline rUnique.
Proof. unfold rUnique. disc1. Qed.
Lemma rInts_disc : body_discipline rInts.
Proof. unfold rInts. disc1. Qed.
Lemma in_like_disc : body_discipline in_like.
Proof.
  intros vn obj field v c Hin. unfold in_like in Hin.
  destruct (in_opts (pk_val vn)); [|destruct Hin as [<-|[]]; exact I].
  destruct v; repeat (cbn [In] in Hin; cbv zeta in Hin; disc_step Hin); try exact I; apply body_of_disc.
Qed.

(* required / exist in the struct walker use the message of their rule text the same way *)
Lemma req_body_disc cus r : req_body cus r = match cus with [] => VDefault r | _ => VCustom cus end.
Proof. reflexivity. Qed.
