(* GoWalkVarTotal.v — the source text of VVar.validate on a well-formed value: it returns normally and writes exactly
   the clauses of the rules of the variable, in rule order (the from-source theorem composed with the exactness theorem
   of the model's flat walker). *)
From Coq Require Import String.
From PGV Require Import Base.Bytes Base.GoStr Base.GoNum Base.Utf8 Base.Url Base.MiniGo.
From PGV Require Import Extracted.SourceConst Extracted.SourceTable Extracted.SourceFnsWalk.
From PGV Require Import Model.RuleText Model.Value Model.Clause Model.Rules Model.Walk Model.GoWalk.
From PGV Require Import Proofs.WalkProofs Proofs.WalkAddrProofs Proofs.FlatWalkProofs Proofs.GoWalkProofs Proofs.GoWalkVar.
Open Scope Z_scope.

Definition var_clauses (c : cfg) (rules : rm) (tv : val) : list clause :=
  match rm_get rules validVarFieldName with
  | [] => [CField [] [] (FKnown (s2b "have no set rule"))]
  | vns => flat_map (var_out c tv) (names_split COMMA vns)
  end.

Theorem var_walker_source_exact (c : cfg) (rules : rm) (tv : val) (b : buf) : wf_val tv = true ->
  run_var_validate c rules fn_VVar_validate tv b =
  Some (Ok {| b_cl := rev (var_clauses c rules tv) ++ b_cl b; b_gr := b_gr b |}).
Proof.
  intros Hw. rewrite var_validate_from_source. unfold var_clauses.
  destruct (rm_get rules validVarFieldName) as [|r0 rr]; [destruct b; reflexivity|].
  rewrite (var_rules_exact c tv _ Hw b). reflexivity.
Qed.
