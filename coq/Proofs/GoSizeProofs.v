(* GoSizeProofs.v — the syntax tree of validInputSize extracted from /repo computes the model. *)
From Coq Require Import String.
From PGV Require Import Base.Bytes Base.GoStr Base.GoNum Base.Utf8 Base.MiniGo.
From PGV Require Import Model.RuleText Model.Value Model.Clause Model.Rules Model.GoSize Extracted.SourceFnsSize.
Open Scope Z_scope.

Lemma wrap64_small z : 0 <= z -> in_int64 z = true -> wrap64 z = z.
Proof.
  intros H0 H. unfold in_int64 in H. apply andb_prop in H. destruct H as [_ H]. apply Z.leb_le in H.
  unfold wrap64. apply Z.mod_small. unfold MaxInt64, two64 in *. lia.
Qed.

Definition he_mode (he : list bool) : bool := match he with [] => true | b :: _ => b end.

Ltac split_conds :=
  repeat match goal with
         | |- context[if ?c then _ else _] => destruct c eqn:?
         end.

Theorem size_from_source mn mx v he : in_int64 mn = true -> in_int64 mx = true ->
  run_size fn_validInputSize mn mx v he = Some (valid_input_size mn mx v (he_mode he)).
Proof.
  intros Hmn Hmx. unfold run_size, he_mode.
  assert (Hw : forall z, in_int64 z = true -> (0 <=? z) = true -> wrap64 z = z).
  { intros z Hz H0. apply wrap64_small; [now apply Z.leb_le|exact Hz]. }
  destruct he as [|b r]; [|destruct b];
    destruct v as [| | w z | w n | is32 f r1 r2 | s | | | | | | | | |]; try destruct w; try destruct is32;
    cbn [class_of];
    match goal with |- tree_den _ _ _ ?T = _ => let t := eval vm_compute in T in change T with t end;
    cbn [tree_den cden iden zcmp fden sden bden get String.eqb Ascii.eqb Bool.eqb valid_input_size];
    try reflexivity.
  all: try (split_conds; reflexivity).
  all: destruct (0 <=? mn) eqn:E0; [rewrite (Hw mn Hmn E0)|]; cbn [andb];
       (destruct (mx <? 0) eqn:E1; cbn [orb];
        [|rewrite (Hw mx Hmx) by (apply Z.leb_le; apply Z.ltb_ge in E1; exact E1)]);
       split_conds; reflexivity.
Qed.

(* the extracted function has no form the semantics does not know: every run ends in leaves *)
Fixpoint no_stuck (t : tree) : bool :=
  match t with Leaf _ _ => true | Fork _ a b => no_stuck a && no_stuck b | Stuck => false end.
Lemma size_never_stuck :
  forallb (fun k => forallb (fun he => no_stuck (sym_run fn_validInputSize k he)) [None; Some true; Some false])
          [KStr; KFlt true; KFlt false; KIntW W8; KIntW WInt; KUintW W8; KUintW WInt; KSlc; KOtherKind "Bool"] = true.
Proof. vm_compute. reflexivity. Qed.

(* eq / noeq: the comparison part of eq() (valid/validfn.go) from its source text *)
Theorem eq_from_source n v : in_int64 n = true -> run_eq fn_eq n v = Some (eq_holds n v).
Proof.
  intros Hn. unfold run_eq.
  assert (Hw : (0 <=? n) = true -> wrap64 n = n).
  { intros H0. apply wrap64_small; [now apply Z.leb_le|exact Hn]. }
  destruct v as [| | w z | w u | is32 f r1 r2 | s | | | | | | | | |]; try destruct w; try destruct is32;
    cbn [class_of];
    match goal with |- tree_bool _ _ _ ?T = _ => let t := eval vm_compute in T in change T with t end;
    cbn [tree_bool cden iden zcmp fden bden get String.eqb Ascii.eqb Bool.eqb eq_holds];
    try reflexivity.
  all: try (match goal with |- (if negb ?c then _ else _) = _ => destruct c; reflexivity end).
  all: destruct (n <? 0) eqn:E1; cbn [orb].
  all: try (apply Z.ltb_lt in E1; replace (0 <=? n) with false by (symmetry; apply Z.leb_gt; lia); reflexivity).
  all: apply Z.ltb_ge in E1; assert (E0 : (0 <=? n) = true) by (apply Z.leb_le; exact E1); rewrite E0, (Hw E0); cbn [andb];
       destruct (u =? n); reflexivity.
Qed.
