(* Proofs about the interleaving semantics of Model/Conc.v *)
From PGV Require Import Base.Bytes Model.Conc.

Section Sem.
  Variable ms : list msum.
  Lemma upd_same c t x : upd c t x t = x.
  Proof. unfold upd. now rewrite Nat.eqb_refl. Qed.
  Lemma upd_other c t x u : u <> t -> upd c t x u = c u.
  Proof. unfold upd. intros H. destruct (Nat.eqb_spec u t); [contradiction|reflexivity]. Qed.

  Lemma reach_inv c : reach ms c -> lock_inv ms c.
  Proof.
    induction 1 as [|c c' Hr [IHm IHx] Hs].
    - split; [intros t m [H|H]; discriminate|intros; discriminate].
    - destruct Hs as [c t m Hidle Hin|c t m Hw Hce|c t m Hi].
      + split.
        * intros u m' H. destruct (Nat.eq_dec u t) as [->|Hne].
          -- rewrite upd_same in H. destruct H as [H|H]; [discriminate|]. injection H as <-. exact Hin.
          -- rewrite upd_other in H by assumption. eapply IHm; eassumption.
        * intros u1 u2 m1 m2 Hne H1 H2 Hw.
          destruct (Nat.eq_dec u1 t) as [->|N1]; [rewrite upd_same in H1; discriminate|].
          destruct (Nat.eq_dec u2 t) as [->|N2]; [rewrite upd_same in H2; discriminate|].
          rewrite upd_other in H1, H2 by assumption. apply (IHx u1 u2 m1 m2); assumption.
      + split.
        * intros u m' H. destruct (Nat.eq_dec u t) as [->|Hne].
          -- rewrite upd_same in H. destruct H as [H|H]; [|discriminate]. injection H as <-. apply (IHm t m). now right.
          -- rewrite upd_other in H by assumption. eapply IHm; eassumption.
        * intros u1 u2 m1 m2 Hne H1 H2 Hw1.
          destruct (Nat.eq_dec u1 t) as [->|N1]; destruct (Nat.eq_dec u2 t) as [->|N2]; try contradiction.
          -- (* the entering thread is the writer *)
             rewrite upd_same in H1. inversion H1; subst m1. rewrite upd_other in H2 by assumption.
             unfold can_enter in Hce. unfold is_w in Hw1. destruct (m_lock m); try discriminate.
             eapply Hce; eassumption.
          -- (* the entering thread meets an existing writer *)
             rewrite upd_same in H2. inversion H2; subst m2. rewrite upd_other in H1 by assumption.
             unfold can_enter in Hce. unfold holds. destruct (m_lock m) eqn:E; [reflexivity| |].
             ++ specialize (Hce u1 m1 N1 H1). congruence.
             ++ specialize (Hce u1 m1 N1 H1). unfold is_w, holds in *. destruct (m_lock m1); discriminate.
          -- rewrite upd_other in H1, H2 by assumption. apply (IHx u1 u2 m1 m2); assumption.
      + split.
        * intros u m' H. destruct (Nat.eq_dec u t) as [->|Hne].
          -- rewrite upd_same in H. destruct H; discriminate.
          -- rewrite upd_other in H by assumption. eapply IHm; eassumption.
        * intros u1 u2 m1 m2 Hne H1 H2 Hw.
          destruct (Nat.eq_dec u1 t) as [->|N1]; [rewrite upd_same in H1; discriminate|].
          destruct (Nat.eq_dec u2 t) as [->|N2]; [rewrite upd_same in H2; discriminate|].
          rewrite upd_other in H1, H2 by assumption. apply (IHx u1 u2 m1 m2); assumption.
  Qed.

  (* no reachable configuration has two threads inside conflicting bodies *)
  Theorem race_freeb_sound : race_freeb ms = true ->
    forall c, reach ms c -> forall t u m m', t <> u -> c t = Inside m -> c u = Inside m' -> conflict m m' = false.
  Proof.
    intros Hrf c Hr t u m m' Hne Ht Hu. destruct (reach_inv c Hr) as [Hm Hx].
    destruct (conflict m m') eqn:Ec; [exfalso|reflexivity].
    unfold race_freeb in Hrf. rewrite forallb_forall in Hrf.
    specialize (Hrf m (Hm t m (or_introl Ht))). rewrite forallb_forall in Hrf.
    specialize (Hrf m' (Hm u m' (or_introl Hu))). rewrite Ec in Hrf. cbn in Hrf.
    unfold excl in Hrf. apply orb_prop in Hrf as [H|H]; apply andb_prop in H as [Hw Hh].
    - rewrite (Hx t u m m' Hne Ht Hu Hw) in Hh. discriminate.
    - rewrite (Hx u t m' m (not_eq_sym Hne) Hu Ht Hw) in Hh. discriminate.
  Qed.
End Sem.
