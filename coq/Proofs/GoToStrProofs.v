(* GoToStrProofs.v — the body of ToStr extracted from /repo returns the model's to_str on every scalar. *)
From Coq Require Import String.
From PGV Require Import Base.Bytes Base.GoStr Base.GoNum Base.Utf8 Base.MiniGo Extracted.SourceFnsToStr.
From PGV Require Import Model.Value Model.GoToStr.
Open Scope Z_scope.

Definition scalar (v : val) : bool :=
  match v with VStr _ | VInt _ _ | VUint _ _ | VFloat _ _ _ _ | VBool _ => true | _ => false end.

Theorem tostr_from_source v : scalar v = true -> run_tostr fn_ToStr v = Some (to_str v).
Proof.
  destruct v as [| b | w z | w n | is32 f r1 r2 | s | | | | | | | | |]; try discriminate; intros _;
    try destruct w; try destruct is32; try destruct b; vm_compute; reflexivity.
Qed.

(* every other kind goes to the default clause: fmt's %v, which the model does not predict *)
Theorem tostr_other v : scalar v = false -> run_tostr fn_ToStr v = Some opaque_echo.
Proof.
  destruct v; try discriminate; intros _; vm_compute; reflexivity.
Qed.
