(* C01 final statements over the rule functions as the walkers call them. *)
From PGV Require Import Base.Bytes Base.GoStr Base.GoNum Base.Utf8.
From PGV Require Import Extracted.SourceConst Extracted.SourceTable.
From PGV Require Import Model.RuleText Model.Value Model.Clause Model.Rules Model.Walk Spec.SizeSpec.
From PGV Require Import Proofs.SizeProofs Run.Run_C01.
Open Scope Z_scope.

Lemma two_bound_rules he vn obj field v lo hi x :
  parse_tag_to (pk_val vn) (s2b "to") = inl (lo, hi) -> sizeable v = true -> measure v = Some x ->
  violated (to_like he vn obj field v) = negb (in_set (if he then RTo else ROTo) lo hi x) /\
  (length (to_like he vn obj field v) <= 1)%nat.
Proof.
  intros Hp Hs Hm. destruct (to_like_core he vn obj field v lo hi Hp) as [H1 H2].
  split; [|exact H2]. rewrite H1. now apply core_verdict_exact.
Qed.

Lemma one_bound_rules lower he rule vn obj field v x :
  sizeable v = true -> measure v = Some x ->
  let b := fst (atoi (pk_val vn)) in
  violated (one_sided lower he rule vn obj field v) =
    negb (in_set (if lower then (if he then RGe else RGt) else (if he then RLe else RLt)) b b x) /\
  (length (one_sided lower he rule vn obj field v) <= 1)%nat.
Proof.
  intros Hs Hm b. destruct (one_sided_core lower he rule vn obj field v) as [H1 H2].
  split; [|exact H2]. rewrite H1. now apply core_verdict_exact.
Qed.

Lemma eq_rules want vn obj field v x :
  sizeable v = true -> measure v = Some x ->
  violated (eq_like want vn obj field v) = negb (in_set (if want then REq else RNoEq) (fst (atoi (pk_val vn))) 0 x) /\
  (length (eq_like want vn obj field v) <= 1)%nat.
Proof.
  intros Hs Hm. destruct (eq_like_core want vn obj field v) as [H1 H2].
  split; [|exact H2]. rewrite H1. now apply core_verdict_exact.
Qed.

(* the source's rule table sends the eight names to the eight functions modelled here *)
Definition size_names : list (str * str) :=
  [(VTo, s2b "To"); (VGe, s2b "Ge"); (VLe, s2b "Le"); (VOTo, s2b "OTo");
   (VGt, s2b "Gt"); (VLt, s2b "Lt"); (VEq, s2b "Eq"); (VNoEq, s2b "NoEq")].
Lemma table_ok : forallb (fun p => match lookup1 (fst p) rule_table with
                                   | Some (Some f) => str_eqb f (snd p)
                                   | _ => false
                                   end) size_names = true.
Proof. vm_compute. reflexivity. Qed.

(* the complete finite sweep, through the rule TEXT (builder text, parser, Atoi): every non-zero
   8-bit value, signed and unsigned, every bound (pair) in the window, every rule *)
Definition sweep_window : list Z := [-129; -128; -2; -1; 0; 1; 2; 5; 127; 128; 255; 256].
Definition all_rules : list srule := [RTo; RGe; RLe; ROTo; RGt; RLt; REq; RNoEq].
Definition sweep_ok : bool :=
  forallb (fun sg => forallb (fun r =>
     list_eqb Bool.eqb (verdicts model_verdict sg r sweep_window) (verdicts spec_verdict sg r sweep_window))
     all_rules) [true; false].
Lemma sweep_8bit : sweep_ok = true.
Proof. vm_compute. reflexivity. Qed.
