(* GoHelperProofs.v — parseTagTo and ReflectKindIsNum (valid/common.go) from the source text: the bound reader of to / oto
   computes the model's parse_tag_to on every text, the kind test is the model's is_num_kind on every kind name. *)
From Coq Require Import String.
From PGV Require Import Base.Bytes Base.GoStr Base.GoNum Base.Utf8 Base.MiniGo.
From PGV Require Import Regex.Re Regex.Rx Extracted.SourceConst Extracted.SourceRegex Extracted.SourceFnsRule.
From PGV Require Import Model.RuleText Model.Value Model.Clause Model.Rules Model.GoRule.
Open Scope Z_scope.

Lemma len3_ne2 {X} (a b c : X) l : (Z.of_nat (List.length (a :: b :: c :: l)) =? 2) = false.
Proof. apply Z.eqb_neq. cbn [List.length]. lia. Qed.

Ltac hstep :=
  lazy beta iota zeta delta
    [run_parse_to run_kind_is_num rexec rexec_list reval rcall bind strs rset rempty fn_body fn_parseTagTo fn_ReflectKindIsNum
     String.eqb Ascii.eqb Bool.eqb andb orb negb fst snd];
  rewrite ?len3_ne2;
  cbn [str_eqb List.length Z.of_nat Pos.of_succ_nat Pos.succ Z.eqb Pos.eqb Z.leb Z.ltb Z.compare Pos.compare Pos.compare_cont
       Z.to_nat Nat.add nth_error]; rewrite ?Pos2Nat.inj_1; cbn [nth_error].

Theorem parse_tag_to_from_source s he :
  run_parse_to fn_parseTagTo s he = Some (parse_tag_to s (if he then s2b "to" else s2b "oto")).
Proof.
  unfold parse_tag_to, TILDE. hstep.
  destruct (split s [126%N]) as [|a [|b [|c l]]]; hstep; try (destruct he; hstep; reflexivity).
  destruct (atoi a) as [mn [|]]; hstep; try reflexivity.
  destruct (atoi b) as [mx [|]]; hstep; reflexivity.
Qed.

Theorem kind_is_num_from_source k flags :
  run_kind_is_num fn_ReflectKindIsNum k flags =
  Some (kind_name_is_int k || (kind_name_is_float k && match flags with [] => false | b :: _ => b end)).
Proof.
  unfold kind_name_is_int, kind_name_is_float. cbn [existsb]. change (String.eqb k) with (kind_is k).
  destruct flags as [|fl rest]; hstep;
    repeat (match goal with |- context[kind_is k ?c] => destruct (kind_is k c) eqn:? end; hstep);
    try reflexivity; try (destruct fl; hstep; reflexivity).
Qed.
