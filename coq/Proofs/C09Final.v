(* Corollaries over whole histories for property C09. *)
From PGV Require Import Base.Bytes Spec.LRUSpec Model.LRU Proofs.LRUProofs Proofs.LRUTimeProofs.
Open Scope Z_scope.

Lemma refines_abstract c ops : 0 <= c ->
  let '(s, outs) := run (init c) ops in let '(a, outs', evs) := a_run c [] ops in
  outs = outs' /\ log s = evs /\ dump s = map snd a /\ Z.of_nat (length a) <= c.
Proof.
  intros Hc. pose proof (run_refines_init c ops Hc) as H.
  destruct (run (init c) ops) as [s outs]. destruct (a_run c [] ops) as [[a outs'] evs]. tauto.
Qed.

Lemma reachable_inv c ops : 0 <= c -> exists a, Inv (fst (run (init c) ops)) a.
Proof.
  intros Hc. pose proof (run_refines_init c ops Hc) as H.
  destruct (run (init c) ops) as [s outs]. destruct (a_run c [] ops) as [[a outs'] evs].
  exists a. cbn. tauto.
Qed.

Lemma bounded c ops : 0 <= c ->
  let s := fst (run (init c) ops) in
  Z.of_nat (length (lst s)) <= c /\ length (nmap s) = length (lst s).
Proof.
  intros Hc. pose proof (run_refines_init c ops Hc) as H.
  destruct (run (init c) ops) as [s outs]. destruct (a_run c [] ops) as [[a outs'] evs].
  destruct H as (_ & HI & _ & Hb & _). cbn [fst]. split.
  - now rewrite (R_length _ _ _ (inv_R _ _ HI)).
  - symmetry. apply (inv_lengths s a HI).
Qed.

Lemma len_exact c ops : 0 <= c ->
  let s := fst (run (init c) ops) in len s = Z.of_nat (length (lst s)) /\ 0 <= len s <= c.
Proof.
  intros Hc. pose proof (run_refines_init c ops Hc) as H.
  destruct (run (init c) ops) as [s outs]. destruct (a_run c [] ops) as [[a outs'] evs].
  destruct H as (_ & HI & _ & Hb & _). cbn [fst].
  rewrite (len_refines s a HI), (R_length _ _ _ (inv_R _ _ HI)). lia.
Qed.

Lemma refines_timestamps c ops : 0 <= c ->
  let '(s, outs) := run (init c) ops in let '(_, outs', evs) := t_run c 0 [] ops in
  outs = outs' /\ log s = evs.
Proof.
  intros Hc. pose proof (run_refines_init c ops Hc) as H.
  pose proof (t_run_refines c ops 0%nat [] [] [] J_init) as H2.
  destruct (run (init c) ops) as [s outs]. destruct (a_run c [] ops) as [[a outs'] evs].
  destruct (t_run c 0 [] ops) as [[t outs''] evs']. destruct H as (-> & _ & -> & _). exact H2.
Qed.
