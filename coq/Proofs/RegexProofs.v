(* The repository's own regular expressions (regenerated from valid/init.go on every run) accept
   exactly the languages of Spec/FormatSpec.v (C05: phone, int, float, idcard, email). *)
From PGV Require Import Base.Bytes Base.GoStr Base.Utf8 Regex.Re Regex.Rx.
From PGV Require Import Extracted.SourceRegex Model.Rules Spec.FormatSpec.
Open Scope N_scope.

(* ---------- generic facts ---------- *)
Lemma lang_cat_eps_r r s : lang (Cat r Eps) s <-> lang r s.
Proof.
  split; intros H.
  - apply lang_cat_inv in H as (a & b & -> & Ha & Hb). apply lang_eps_inv in Hb. subst. now rewrite app_nil_r.
  - rewrite <- (app_nil_r s). constructor; [assumption|constructor].
Qed.
Lemma lang_cat_eps_l r s : lang (Cat Eps r) s <-> lang r s.
Proof.
  split; intros H.
  - apply lang_cat_inv in H as (a & b & -> & Ha & Hb). apply lang_eps_inv in Ha. now subst.
  - change s with ([] ++ s). constructor; [constructor|assumption].
Qed.

Lemma bool_iff (a b : bool) : (a = true <-> b = true) -> a = b.
Proof. destruct a, b; intros [H1 H2]; try reflexivity; [symmetry; now apply H1|now apply H2]. Qed.

Lemma anchored b s :
  match_patterns [{| p_bol := true; p_body := b; p_eol := true |}] s = matchb b s.
Proof.
  unfold match_patterns, pattern_re. cbn [existsb p_bol p_body p_eol]. rewrite orb_false_r.
  apply bool_iff. rewrite !matchb_lang, lang_cat_eps_l, lang_cat_eps_r. reflexivity.
Qed.

Lemma anchored1 b s : matchb (pattern_re {| p_bol := true; p_body := b; p_eol := true |}) s = matchb b s.
Proof.
  unfold pattern_re. cbn [p_bol p_body p_eol].
  apply bool_iff. rewrite !matchb_lang, lang_cat_eps_l, lang_cat_eps_r. reflexivity.
Qed.

Lemma star_cls c t : lang (Star (Cls c)) t <-> forallb (in_cls c) t = true.
Proof.
  split.
  - remember (Star (Cls c)) as r eqn:E. induction 1 as [| | | | | | |a s u H1 IH1 H2 IH2]; try discriminate; [reflexivity|].
    inversion E; subst a. apply lang_cls_inv in H1 as (x & -> & Hx). cbn. rewrite Hx. cbn. now apply IH2.
  - induction t as [|x t IH]; cbn; intros H; [constructor|].
    apply andb_prop in H as [Hx Ht]. change (x :: t) with ([x] ++ t). constructor; [now constructor|now apply IH].
Qed.

Lemma plus_cls c t : lang (Cat (Cls c) (Star (Cls c))) t <-> t <> [] /\ forallb (in_cls c) t = true.
Proof.
  split.
  - intros H. apply lang_cat_inv in H as (a & b & -> & Ha & Hb). apply lang_cls_inv in Ha as (x & -> & Hx).
    apply star_cls in Hb. cbn. rewrite Hx, Hb. split; [discriminate|reflexivity].
  - intros [Hne H]. destruct t as [|x t]; [congruence|]. cbn in H. apply andb_prop in H as [Hx Ht].
    change (x :: t) with ([x] ++ t). constructor; [now constructor|now apply star_cls].
Qed.

Ltac ncmp := repeat match goal with
  | |- context[?a <=? ?b] => destruct (N.leb_spec a b)
  | |- context[?a =? ?b] => destruct (N.eqb_spec a b)
  end; cbn; try reflexivity; try lia.

Definition DIG : list (N * N) := [(48, 57)].
Definition WORD : list (N * N) := [(48, 57); (65, 90); (95, 95); (97, 122)].
Lemma dig_cls c : in_cls DIG c = is_digit_r c.
Proof. apply in_cls1. Qed.
Lemma word_cls c : in_cls WORD c = is_word_r c.
Proof. unfold in_cls, WORD, is_word_r, is_digit_r. cbn [existsb fst snd]. ncmp. Qed.

Lemma forallb_dig t : forallb (in_cls DIG) t = forallb is_digit_r t.
Proof. apply forallb_ext'. apply dig_cls. Qed.

Lemma plus_dig t : lang (Cat (Cls DIG) (Star (Cls DIG))) t <-> digits_spec t = true.
Proof.
  rewrite plus_cls, forallb_dig. unfold digits_spec. destruct t; [split; [intros [H _]; congruence|discriminate]|].
  split; [now intros [_ H]|intros H; split; [discriminate|exact H]].
Qed.

(* ---------- int ---------- *)
Lemma int_pat : pats IntRe = [{| p_bol := true; p_body := Cat (Cat (Cls DIG) (Star (Cls DIG))) Eps; p_eol := true |}].
Proof. reflexivity. Qed.

Theorem int_re_spec (s : str) : match_string (pats IntRe) s = digits_spec (decode s).
Proof.
  unfold match_string. rewrite int_pat, anchored. apply bool_iff.
  rewrite matchb_lang, lang_cat_eps_r. apply plus_dig.
Qed.

(* ---------- phone ---------- *)
Lemma phone_pat : pats PhoneRe =
  [{| p_bol := true;
      p_body := Cat (Cls [(49, 49)]) (Cat (Cls [(51, 57)]) (Cat (Cat (rep 9 (Cls DIG)) Eps) Eps));
      p_eol := true |}].
Proof. reflexivity. Qed.

Theorem phone_re_spec (s : str) : match_string (pats PhoneRe) s = phone_spec (decode s).
Proof.
  unfold match_string. rewrite phone_pat, anchored. generalize (decode s) as t. intros t.
  apply bool_iff. rewrite matchb_lang. split.
  - intros H. apply lang_cat_inv in H as (s0 & t0 & -> & Ha & H).
    apply lang_cls_inv in Ha as (c0 & -> & H0).
    apply lang_cat_inv in H as (s1 & t1 & -> & Hb & H6).
    apply lang_cls_inv in Hb as (c1 & -> & H1).
    rewrite !lang_cat_eps_r in H6. apply lang_rep_cls in H6 as [Hl Hf].
    rewrite in_cls1 in H0, H1. apply andb_prop in H0 as [A B].
    apply N.leb_le in A, B. assert (c0 = 49) by lia. subst c0.
    cbn [app phone_spec]. rewrite N.eqb_refl, H1, Hl. cbn. now rewrite <- forallb_dig.
  - intros H. destruct t as [|c0 [|c1 rest]]; try discriminate. cbn [phone_spec] in H.
    apply andb_prop in H as [H Hf]. apply andb_prop in H as [H Hl]. apply andb_prop in H as [H0 H1].
    apply N.eqb_eq in H0. subst c0. change (49 :: c1 :: rest) with ([49] ++ [c1] ++ rest).
    constructor; [constructor; reflexivity|]. constructor.
    + constructor. now rewrite in_cls1.
    + rewrite !lang_cat_eps_r. apply lang_rep_cls. split; [now apply Nat.eqb_eq|now rewrite forallb_dig].
Qed.

(* ---------- float ---------- *)
Lemma float_pat : pats FloatRe =
  [{| p_bol := true;
      p_body := Cat (Cat (Cls DIG) (Star (Cls DIG)))
                    (Cat (Cls [(46, 46)]) (Cat (Cat (Cls DIG) (Star (Cls DIG))) Eps));
      p_eol := true |}].
Proof. reflexivity. Qed.

Lemma index_r_app_hit c a r : forallb (fun x => negb (x =? c)) a = true -> index_r c (a ++ c :: r) = Some (length a).
Proof.
  induction a as [|x a IH]; cbn; [now rewrite N.eqb_refl|].
  intros H. apply andb_prop in H as [Hx Hr]. destruct (x =? c); [discriminate|]. now rewrite IH.
Qed.
Lemma index_r_some c s i : index_r c s = Some i -> s = firstn i s ++ c :: skipn (i + 1) s.
Proof.
  revert i; induction s as [|x s IH]; cbn; intros i H; [discriminate|].
  destruct (N.eqb_spec x c) as [->|Hne].
  - inversion H; subst. reflexivity.
  - destruct (index_r c s) as [j|] eqn:E; [|discriminate]. inversion H; subst. cbn. f_equal. now apply IH.
Qed.

Lemma digits_no_dot a : forallb is_digit_r a = true -> forallb (fun x => negb (x =? 46)) a = true.
Proof.
  induction a as [|x a IH]; cbn; [reflexivity|]. intros H. apply andb_prop in H as [Hx Ha].
  rewrite IH by assumption. unfold is_digit_r in Hx. apply andb_prop in Hx as [A B]. apply N.leb_le in A, B.
  destruct (N.eqb_spec x 46); [lia|reflexivity].
Qed.

Theorem float_re_spec (s : str) : match_string (pats FloatRe) s = float_spec (decode s).
Proof.
  unfold match_string. rewrite float_pat, anchored. generalize (decode s) as t. intros t.
  apply bool_iff. rewrite matchb_lang. split.
  - intros H. apply lang_cat_inv in H as (a & r & -> & Ha & H).
    apply lang_cat_inv in H as (d & b & -> & Hd & Hb).
    apply lang_cls_inv in Hd as (x & -> & Hx). rewrite in_cls1 in Hx.
    apply andb_prop in Hx as [A B]. apply N.leb_le in A, B. assert (x = 46) by lia. subst x.
    rewrite lang_cat_eps_r in Hb. apply plus_dig in Ha, Hb.
    unfold float_spec. cbn [app].
    assert (Hnd : forallb (fun x => negb (x =? 46)) a = true).
    { apply digits_no_dot. unfold digits_spec in Ha. destruct a; [discriminate|exact Ha]. }
    rewrite (index_r_app_hit 46 a b Hnd). rewrite firstn_app_len.
    replace (skipn (length a + 1) (a ++ 46 :: b)) with b by (now rewrite skipn_app_len).
    now rewrite Ha, Hb.
  - unfold float_spec. destruct (index_r 46 t) as [i|] eqn:E; [|discriminate].
    intros H. apply andb_prop in H as [Ha Hb]. rewrite (index_r_some 46 t i E).
    constructor; [now apply plus_dig|].
    change (46 :: skipn (i + 1) t) with ([46] ++ skipn (i + 1) t).
    constructor; [constructor; reflexivity|]. rewrite lang_cat_eps_r. now apply plus_dig.
Qed.

(* ---------- idcard ---------- *)
Definition IDX : list (N * N) := [(48, 57); (88, 88); (120, 120)].
Lemma idcard_pat : pats IdCardRe =
  [{| p_bol := true; p_body := Cat (Cat (rep 15 (Cls DIG)) Eps) Eps; p_eol := true |};
   {| p_bol := true; p_body := Cat (Cat (rep 18 (Cls DIG)) Eps) Eps; p_eol := true |};
   {| p_bol := true; p_body := Cat (Cat (rep 17 (Cls DIG)) Eps) (Cat (Cls IDX) Eps); p_eol := true |}].
Proof. reflexivity. Qed.

Lemma idx_cls c : in_cls IDX c = is_digit_r c || (c =? 88) || (c =? 120).
Proof. unfold in_cls, IDX, is_digit_r. cbn [existsb fst snd]. ncmp. Qed.

Lemma match_cons p ps s : match_patterns (p :: ps) s = match_patterns [p] s || match_patterns ps s.
Proof. unfold match_patterns. cbn [existsb]. now rewrite orb_false_r. Qed.

Lemma rep_dig n t : matchb (Cat (Cat (rep n (Cls DIG)) Eps) Eps) t = Nat.eqb (length t) n && forallb is_digit_r t.
Proof.
  apply bool_iff. rewrite matchb_lang, !lang_cat_eps_r, lang_rep_cls, forallb_dig.
  rewrite andb_true_iff, Nat.eqb_eq. reflexivity.
Qed.

Lemma firstn_skipn_forallb {X} (f : X -> bool) n l : forallb f l = forallb f (firstn n l) && forallb f (skipn n l).
Proof. rewrite <- forallb_app. now rewrite firstn_skipn. Qed.

Theorem idcard_re_spec (s : str) : match_string (pats IdCardRe) s = idcard_spec (decode s).
Proof.
  unfold match_string. rewrite idcard_pat. generalize (decode s) as t. intros t.
  unfold match_patterns. cbn [existsb]. rewrite !anchored1, !rep_dig, orb_false_r. unfold idcard_spec.
  (* third alternative *)
  assert (H3 : matchb (Cat (Cat (rep 17 (Cls DIG)) Eps) (Cat (Cls IDX) Eps)) t =
               Nat.eqb (length t) 18 && forallb is_digit_r (firstn 17 t) &&
               forallb (fun c => is_digit_r c || (c =? 88) || (c =? 120)) (skipn 17 t)).
  { apply bool_iff. rewrite matchb_lang. split.
    - intros H. apply lang_cat_inv in H as (a & b & -> & Ha & Hb).
      rewrite lang_cat_eps_r in Ha. apply lang_rep_cls in Ha as [Hl Hf]. rewrite lang_cat_eps_r in Hb.
      apply lang_cls_inv in Hb as (x & -> & Hx). rewrite idx_cls in Hx. rewrite forallb_dig in Hf.
      rewrite app_length, Hl. cbn [length Nat.add Nat.eqb]. rewrite <- Hl, firstn_app_len, Hf.
      replace (skipn (length a) (a ++ [x])) with [x] by (now rewrite skipn_app_len0). cbn. now rewrite Hx.
    - intros H. apply andb_prop in H as [H Hx]. apply andb_prop in H as [Hl Hf]. apply Nat.eqb_eq in Hl.
      rewrite <- (firstn_skipn 17 t). constructor.
      + rewrite lang_cat_eps_r. apply lang_rep_cls. split; [rewrite firstn_length; lia|now rewrite forallb_dig].
      + rewrite lang_cat_eps_r.
        assert (Hs : length (skipn 17 t) = 1%nat) by (rewrite skipn_length; lia).
        destruct (skipn 17 t) as [|x [|y r]]; try discriminate. cbn in Hx. rewrite andb_true_r in Hx.
        constructor. now rewrite idx_cls. }
  rewrite H3.
  (* 18 digits are covered by the third alternative's shape *)
  destruct (Nat.eqb (length t) 15) eqn:E15; cbn [andb orb].
  - destruct (forallb is_digit_r t); cbn [orb]; [reflexivity|].
    apply Nat.eqb_eq in E15. replace (Nat.eqb (length t) 18) with false by (symmetry; apply Nat.eqb_neq; lia). reflexivity.
  - destruct (Nat.eqb (length t) 18) eqn:E18; cbn [andb orb]; [|reflexivity].
    rewrite (firstn_skipn_forallb is_digit_r 17 t).
    destruct (forallb is_digit_r (firstn 17 t)); cbn [andb orb]; [|reflexivity].
    destruct (forallb is_digit_r (skipn 17 t)) eqn:Ed; cbn [orb]; [|reflexivity].
    symmetry. rewrite forallb_forall in *. intros x Hx. now rewrite (Ed x Hx).
Qed.

(* ---------- email ---------- *)
Lemma wrun_app isw isc st u v :
  wordseq_run isw isc st (u ++ v) =
  match wordseq_run isw isc st u with Some st' => wordseq_run isw isc st' v | None => None end.
Proof.
  revert st; induction u as [|c u IH]; intros st; cbn; [reflexivity|].
  destruct (isw c); [apply IH|]. destruct (isc c && st); [apply IH|reflexivity].
Qed.

Section WordSeq.
  Variables W C : list (N * N).
  Hypothesis disjoint : forall c, in_cls C c = true -> in_cls W c = false.
  Let isw := in_cls W. Let isc := in_cls C.
  Notation run := (wordseq_run isw isc).

  Definition item := Cat (Cls C) (Cat (Cls W) (Star (Cls W))).
  Definition wseq_re := Cat (Cat (Cls W) (Star (Cls W))) (Star item).

  Lemma run_app st u v : run st (u ++ v) = match run st u with Some st' => run st' v | None => None end.
  Proof. apply wrun_app. Qed.

  Lemma run_words st u : forallb isw u = true -> run st u = Some (match u with [] => st | _ => true end).
  Proof.
    revert st; induction u as [|c u IH]; intros st H; cbn; [reflexivity|].
    cbn in H. apply andb_prop in H as [Hc Hu]. rewrite Hc. rewrite (IH true Hu). destruct u; reflexivity.
  Qed.

  Lemma item_run t : lang item t -> run true t = Some true.
  Proof.
    intros H. apply lang_cat_inv in H as (s1 & s2 & -> & Hc & Hp). apply lang_cls_inv in Hc as (c & -> & Hc).
    apply lang_cat_inv in Hp as (s3 & s4 & -> & Hw & Hs). apply lang_cls_inv in Hw as (w & -> & Hw).
    apply star_cls in Hs. cbn [app wordseq_run].
    assert (Hd : isw c = false) by (apply disjoint; exact Hc).
    rewrite Hd. fold isc in Hc. rewrite Hc. cbn [andb]. fold isw in Hw. rewrite Hw.
    rewrite (run_words true s4 Hs). destruct s4; reflexivity.
  Qed.

  Lemma star_item_run v : lang (Star item) v -> run true v = Some true.
  Proof.
    remember (Star item) as r eqn:E. induction 1 as [| | | | | | |a s u H1 IH1 H2 IH2]; try discriminate; [reflexivity|].
    inversion E; subst a. rewrite run_app, (item_run s H1). now apply IH2.
  Qed.

  Lemma run_true_lang n : forall t, length t = n -> run true t = Some true ->
    lang (Cat (Star (Cls W)) (Star item)) t.
  Proof.
    induction n as [n IH] using lt_wf_ind. intros t En Hs.
    destruct t as [|c r]; [change (@nil rune) with (@nil rune ++ []); constructor; constructor|].
    cbn in Hs. destruct (isw c) eqn:Ew.
    - assert (Hr : lang (Cat (Star (Cls W)) (Star item)) r) by (apply (IH (length r)); cbn in En; [lia|reflexivity|exact Hs]).
      apply lang_cat_inv in Hr as (u & v & -> & Hu & Hv).
      change (c :: u ++ v) with ((c :: u) ++ v). constructor; [|exact Hv].
      change (c :: u) with ([c] ++ u). constructor; [now constructor|exact Hu].
    - destruct (isc c) eqn:Ec; [|discriminate]. cbn in Hs.
      destruct r as [|w r']; [discriminate|]. cbn in Hs. destruct (isw w) eqn:Eww; [|now rewrite andb_false_r in Hs].
      assert (Hr : lang (Cat (Star (Cls W)) (Star item)) r') by (apply (IH (length r')); cbn in En; [lia|reflexivity|exact Hs]).
      apply lang_cat_inv in Hr as (u & v & -> & Hu & Hv).
      change (c :: w :: u ++ v) with ([] ++ ((c :: w :: u) ++ v)). constructor; [constructor|].
      constructor; [|exact Hv]. change (c :: w :: u) with ([c] ++ ([w] ++ u)).
      constructor; [now constructor|]. constructor; [now constructor|exact Hu].
  Qed.

  Theorem wseq_run t : lang wseq_re t <-> run false t = Some true.
  Proof.
    split.
    - intros H. apply lang_cat_inv in H as (p & v & -> & Hp & Hv).
      apply lang_cat_inv in Hp as (s1 & s2 & -> & Hw & Hs). apply lang_cls_inv in Hw as (w & -> & Hw).
      apply star_cls in Hs. rewrite run_app. cbn [app wordseq_run]. fold isw in Hw. rewrite Hw.
      rewrite (run_words true s2 Hs). replace (match s2 with [] => true | _ :: _ => true end) with true by (destruct s2; reflexivity).
      now apply star_item_run.
    - destruct t as [|c r]; [discriminate|]. cbn. destruct (isw c) eqn:Ew; [|now rewrite andb_false_r].
      intros Hs. apply (run_true_lang (length r) r eq_refl) in Hs. apply lang_cat_inv in Hs as (u & v & -> & Hu & Hv).
      change (c :: u ++ v) with ((c :: u) ++ v). constructor; [|exact Hv].
      change (c :: u) with ([c] ++ u). constructor; [now constructor|exact Hu].
  Qed.
End WordSeq.

Definition LSEP : list (N * N) := [(43, 43); (45, 46)].
Definition DSEP : list (N * N) := [(45, 46)].

Lemma email_pat : pats EmailRe =
  [{| p_bol := true;
      p_body := Cat (Cat (Cls WORD) (Star (Cls WORD)))
                 (Cat (Star (item WORD LSEP))
                 (Cat (Cls [(64, 64)])
                 (Cat (Cat (Cls WORD) (Star (Cls WORD)))
                 (Cat (Star (item WORD DSEP))
                 (Cat (Cls [(46, 46)])
                 (Cat (Cat (Cls WORD) (Star (Cls WORD)))
                 (Cat (Star (item WORD DSEP)) Eps)))))));
      p_eol := true |}].
Proof. reflexivity. Qed.

Lemma lsep_cls c : in_cls LSEP c = local_sep c.
Proof. unfold in_cls, LSEP, local_sep. cbn [existsb fst snd]. ncmp. Qed.
Lemma dsep_cls c : in_cls DSEP c = domain_sep c.
Proof. unfold in_cls, DSEP, domain_sep. cbn [existsb fst snd]. ncmp. Qed.
Lemma lsep_disjoint c : in_cls LSEP c = true -> in_cls WORD c = false.
Proof. rewrite lsep_cls, word_cls. unfold local_sep, is_word_r, is_digit_r. ncmp; discriminate. Qed.
Lemma dsep_disjoint c : in_cls DSEP c = true -> in_cls WORD c = false.
Proof. rewrite dsep_cls, word_cls. unfold domain_sep, is_word_r, is_digit_r. ncmp; discriminate. Qed.

Lemma run_ext isw isw' isc isc' st t : (forall c, isw c = isw' c) -> (forall c, isc c = isc' c) ->
  wordseq_run isw isc st t = wordseq_run isw' isc' st t.
Proof.
  intros Hw Hc. revert st; induction t as [|c t IH]; intros st; cbn; [reflexivity|].
  rewrite Hw, Hc. destruct (isw' c); [apply IH|]. destruct (isc' c && st); [apply IH|reflexivity].
Qed.

Lemma wseq_local t : lang (wseq_re WORD LSEP) t <-> wordseq local_sep t = true.
Proof.
  rewrite (wseq_run WORD LSEP lsep_disjoint). unfold wordseq.
  rewrite (run_ext _ is_word_r _ local_sep false t word_cls lsep_cls).
  destruct (wordseq_run is_word_r local_sep false t) as [[|]|]; split; congruence.
Qed.
Lemma wseq_domain t : lang (wseq_re WORD DSEP) t <-> wordseq domain_sep t = true.
Proof.
  rewrite (wseq_run WORD DSEP dsep_disjoint). unfold wordseq.
  rewrite (run_ext _ is_word_r _ domain_sep false t word_cls dsep_cls).
  destruct (wordseq_run is_word_r domain_sep false t) as [[|]|]; split; congruence.
Qed.

(* characters of a word sequence are word or separator characters: never '@' *)
Lemma run_chars isc st t st' : wordseq_run is_word_r isc st t = Some st' ->
  forallb (fun c => is_word_r c || isc c) t = true.
Proof.
  revert st; induction t as [|c t IH]; intros st H; cbn in *; [reflexivity|].
  destruct (is_word_r c) eqn:Ew; cbn; [eapply IH; eassumption|].
  destruct (isc c) eqn:Ec; cbn in *; [|discriminate]. destruct st; [|discriminate]. eapply IH; eassumption.
Qed.

Lemma no_at_local t : wordseq local_sep t = true -> forallb (fun x => negb (x =? 64)) t = true.
Proof.
  unfold wordseq. destruct (wordseq_run is_word_r local_sep false t) as [[|]|] eqn:E; try discriminate. intros _.
  apply run_chars in E. rewrite forallb_forall in *. intros c Hc. specialize (E c Hc).
  unfold is_word_r, is_digit_r, local_sep in E. destruct (N.eqb_spec c 64); [subst; discriminate|reflexivity].
Qed.

(* the domain: two word sequences joined by a '.'  =  one word sequence that contains a '.' *)
Lemma domain_join d1 d2 :
  wordseq domain_sep d1 = true -> wordseq domain_sep d2 = true ->
  wordseq domain_sep (d1 ++ 46 :: d2) = true /\ existsb (N.eqb 46) (d1 ++ 46 :: d2) = true.
Proof.
  unfold wordseq. intros H1 H2. split.
  - rewrite wrun_app.
    destruct (wordseq_run is_word_r domain_sep false d1) as [[|]|]; try discriminate.
    cbn [wordseq_run]. change (is_word_r 46) with false. change (domain_sep 46) with true. cbn [andb]. exact H2.
  - rewrite existsb_app. cbn. now rewrite orb_true_r.
Qed.

Lemma domain_split d : wordseq domain_sep d = true -> existsb (N.eqb 46) d = true ->
  exists d1 d2, d = d1 ++ 46 :: d2 /\ wordseq domain_sep d1 = true /\ wordseq domain_sep d2 = true.
Proof.
  intros Hw Hd. apply existsb_exists in Hd as (x & Hin & Hx). apply N.eqb_eq in Hx. subst x.
  (* split at the first '.' *)
  assert (Hf : exists i, index_r 46 d = Some i).
  { clear Hw. induction d as [|c d IH]; [destruct Hin|]. cbn [index_r]. destruct (N.eqb_spec c 46) as [Hc|Hc]; [eauto|].
    destruct Hin as [Hin|Hin]; [congruence|]. destruct (IH Hin) as [i Hi]. rewrite Hi. cbn. eauto. }
  destruct Hf as [i Hi]. pose proof (index_r_some 46 d i Hi) as Hd.
  exists (firstn i d), (skipn (i + 1) d). split; [exact Hd|].
  unfold wordseq in *. rewrite Hd, wrun_app in Hw.
  destruct (wordseq_run is_word_r domain_sep false (firstn i d)) as [st|]; [|discriminate].
  cbn [wordseq_run] in Hw. change (is_word_r 46) with false in Hw. change (domain_sep 46) with true in Hw.
  destruct st; cbn [andb] in Hw; [|discriminate]. split; [reflexivity|exact Hw].
Qed.

Theorem email_re_spec (s : str) : match_string (pats EmailRe) s = email_spec (decode s).
Proof.
  unfold match_string. rewrite email_pat, anchored. generalize (decode s) as t. intros t.
  apply bool_iff. rewrite matchb_lang. split.
  - intros H.
    apply lang_cat_inv in H as (w1 & r1 & -> & Hw1 & H).
    apply lang_cat_inv in H as (i1 & r2 & -> & Hi1 & H).
    apply lang_cat_inv in H as (a & r3 & -> & Ha & H). apply lang_cls_inv in Ha as (x & -> & Hx).
    rewrite in_cls1 in Hx. apply andb_prop in Hx as [A B]. apply N.leb_le in A, B. assert (x = 64) by lia. subst x.
    apply lang_cat_inv in H as (w2 & r4 & -> & Hw2 & H).
    apply lang_cat_inv in H as (i2 & r5 & -> & Hi2 & H).
    apply lang_cat_inv in H as (dt & r6 & -> & Hdt & H). apply lang_cls_inv in Hdt as (y & -> & Hy).
    rewrite in_cls1 in Hy. apply andb_prop in Hy as [A' B']. apply N.leb_le in A', B'. assert (y = 46) by lia. subst y.
    apply lang_cat_inv in H as (w3 & r7 & -> & Hw3 & H). rewrite lang_cat_eps_r in H.
    assert (Hl : wordseq local_sep (w1 ++ i1) = true) by (apply wseq_local; now constructor).
    assert (Hd1 : wordseq domain_sep (w2 ++ i2) = true) by (apply wseq_domain; now constructor).
    assert (Hd2 : wordseq domain_sep (w3 ++ r7) = true) by (apply wseq_domain; now constructor).
    destruct (domain_join _ _ Hd1 Hd2) as [Hj He].
    unfold email_spec.
    replace (w1 ++ i1 ++ [64] ++ w2 ++ i2 ++ [46] ++ w3 ++ r7)
      with ((w1 ++ i1) ++ 64 :: ((w2 ++ i2) ++ 46 :: (w3 ++ r7))) by (rewrite <- !app_assoc; reflexivity).
    rewrite (index_r_app_hit 64 _ _ (no_at_local _ Hl)), firstn_app_len.
    replace (skipn (length (w1 ++ i1) + 1) ((w1 ++ i1) ++ 64 :: ((w2 ++ i2) ++ 46 :: w3 ++ r7)))
      with ((w2 ++ i2) ++ 46 :: w3 ++ r7) by (now rewrite skipn_app_len).
    now rewrite Hl, Hj, He.
  - unfold email_spec. destruct (index_r 64 t) as [i|] eqn:E; [|discriminate].
    intros H. apply andb_prop in H as [H He]. apply andb_prop in H as [Hl Hd].
    destruct (domain_split _ Hd He) as (d1 & d2 & Hdd & Hd1 & Hd2).
    rewrite (index_r_some 64 t i E), Hdd.
    apply wseq_local in Hl. apply wseq_domain in Hd1, Hd2.
    apply lang_cat_inv in Hl as (w1 & i1 & -> & Hw1 & Hi1).
    apply lang_cat_inv in Hd1 as (w2 & i2 & -> & Hw2 & Hi2).
    apply lang_cat_inv in Hd2 as (w3 & i3 & -> & Hw3 & Hi3).
    rewrite <- !app_assoc. constructor; [exact Hw1|]. constructor; [exact Hi1|].
    change (64 :: w2 ++ i2 ++ 46 :: w3 ++ i3) with ([64] ++ w2 ++ i2 ++ [46] ++ w3 ++ i3).
    constructor; [constructor; reflexivity|]. constructor; [exact Hw2|]. constructor; [exact Hi2|].
    constructor; [constructor; reflexivity|]. constructor; [exact Hw3|]. now rewrite lang_cat_eps_r.
Qed.
