(* GoFmtProofs.v — the bodies of the string rule functions Phone, Email, IDCard, Ip, Ipv4, Ipv6, Year, Year2Month, Date,
   Prefix, Suffix (valid/validfn.go) and of CheckFieldIsStr (valid/common.go), extracted from /repo, write exactly the
   text the model predicts, for every rule text, names and value of any kind; they write nothing exactly when the
   model's rule function reports no clause. *)
From Coq Require Import String.
From PGV Require Import Base.Bytes Base.GoStr Base.GoNum Base.Utf8 Base.MiniGo Regex.Re Regex.Rx.
From PGV Require Import Extracted.SourceConst Extracted.SourceRegex Extracted.SourceFnsFmt.
From PGV Require Import Model.RuleText Model.Value Model.Clause Model.Rules Model.GoRule.
Open Scope Z_scope.

Section Texts.
  Variable orc : oracles.
  Variable U : val -> str.
  Variable FE : str -> str -> ftext -> str.
  Variable ST : str -> str.

  (* what a string rule writes: the kind error, nothing, the custom message alone, or the default wording *)
  Definition str_text (wording : str) (ok : str -> bool) (vn obj field : str) (v : val) : str :=
    match v with
    | VStr s =>
      if ok s then []
      else match pk_msg vn with
           | [] => join_valid_err obj field s [ExplainEn; wording]
           | cus => join_valid_err obj field s [cus]
           end
    | _ => join_valid_err obj field (value_string v) [ExplainEn; MUST_STR]
    end.

  Ltac fstep :=
    lazy beta iota zeta delta
      [run_rule run_check_str rexec rexec_list reval rcall bind strs rset rempty fn_body check_str_err rkind kind_is
       fn_Phone fn_Email fn_IDCard fn_Ip fn_Ipv4 fn_Ipv6 fn_Year fn_Year2Month fn_Date fn_Prefix fn_Suffix fn_CheckFieldIsStr
       width_name String.append String.eqb Ascii.eqb Bool.eqb andb orb negb fst snd];
    cbn [str_eqb value_string].

  Theorem check_str_from_source obj field v :
    run_check_str orc fn_CheckFieldIsStr obj field v = Some (check_str_err obj field v).
  Proof. destruct v as [| | [] | [] | [] | | | | | | | | | |]; fstep; reflexivity. Qed.

  Ltac solve_str :=
    unfold str_text;
    match goal with |- context[run_rule _ _ _ _ _ _ _ _ ?v] => destruct v as [| | [] | [] | [] | | | | | | | | | |] end; fstep; try reflexivity;
    match goal with |- context[if ?c then _ else _] => destruct c end; fstep; try reflexivity;
    destruct (pk_msg _) as [|c0 m0]; fstep; reflexivity.

  Theorem phone_from_source vn obj field v :
    run_rule orc U FE ST fn_Phone vn obj field v = Some (str_text (s2b "it is not phone") (match_string (pats PhoneRe)) vn obj field v).
  Proof. solve_str. Qed.
  Theorem email_from_source vn obj field v :
    run_rule orc U FE ST fn_Email vn obj field v = Some (str_text (s2b "it is not email") (match_string (pats EmailRe)) vn obj field v).
  Proof. solve_str. Qed.
  Theorem idcard_from_source vn obj field v :
    run_rule orc U FE ST fn_IDCard vn obj field v = Some (str_text (s2b "it is not idcard") (match_string (pats IdCardRe)) vn obj field v).
  Proof. solve_str. Qed.

  Ltac solve_ip :=
    unfold str_text;
    match goal with |- context[run_rule _ _ _ _ _ _ _ _ ?v] => destruct v as [| | [] | [] | [] | | | | | | | | | |] end; fstep; try reflexivity;
    match goal with |- context[ip_lookup orc ?x] => destruct (ip_lookup orc x) as [[|] [|]] end; fstep; try reflexivity;
    destruct (pk_msg _) as [|c0 m0]; fstep; reflexivity.

  Theorem ip_from_source vn obj field v :
    run_rule orc U FE ST fn_Ip vn obj field v = Some (str_text (s2b "it is not ip") (fun s => fst (ip_lookup orc s)) vn obj field v).
  Proof. solve_ip. Qed.
  Theorem ipv4_from_source vn obj field v :
    run_rule orc U FE ST fn_Ipv4 vn obj field v =
    Some (str_text (s2b "it is not ipv4") (fun s => fst (ip_lookup orc s) && snd (ip_lookup orc s)) vn obj field v).
  Proof. solve_ip. Qed.
  Theorem ipv6_from_source vn obj field v :
    run_rule orc U FE ST fn_Ipv6 vn obj field v =
    Some (str_text (s2b "it is not ipv6") (fun s => fst (ip_lookup orc s) && negb (snd (ip_lookup orc s))) vn obj field v).
  Proof. solve_ip. Qed.

  Theorem prefix_from_source vn obj field v :
    run_rule orc U FE ST fn_Prefix vn obj field v =
    Some (str_text (s2b "prefix is not ok") (fun s => has_prefix s (trim [QUOTE] (pk_val vn))) vn obj field v).
  Proof. unfold QUOTE. solve_str. Qed.
  Theorem suffix_from_source vn obj field v :
    run_rule orc U FE ST fn_Suffix vn obj field v =
    Some (str_text (s2b "suffix is not ok") (fun s => has_suffix s (trim [QUOTE] (pk_val vn))) vn obj field v).
  Proof. unfold QUOTE. solve_str. Qed.

  Ltac solve_time :=
    unfold str_text, date_split, QUOTE;
    match goal with |- context[run_rule _ _ _ _ _ _ _ _ ?v] => destruct v as [| | [] | [] | [] | | | | | | | | | |] end; fstep; try reflexivity;
    try (destruct (pk_val _) as [|c1 m1]; fstep);
    unfold YearFmt, MonthFmt, DateFmt; change (Z.lor 1 2) with 3; change (s2b "-") with [45%N];
    match goal with |- context[time_ok orc ?l ?x] => destruct (time_ok orc l x) end; fstep; try reflexivity;
    destruct (pk_msg _) as [|c0 m0]; fstep; rewrite <- ?app_assoc; reflexivity.

  Theorem year_from_source vn obj field v :
    run_rule orc U FE ST fn_Year vn obj field v =
    Some (str_text (s2b "it is not year, eg: 1996") (time_ok orc (get_time_fmt 1 [])) vn obj field v).
  Proof. solve_time. Qed.

  (* the separator of year2month / date: "-" unless the rule has a value, then that value without protecting quotes *)
  Theorem year2month_from_source vn obj field v :
    run_rule orc U FE ST fn_Year2Month vn obj field v =
    Some (str_text (s2b "it is not year2month, eg: 1996" ++ date_split vn ++ s2b "09")
                   (time_ok orc (get_time_fmt 3 [date_split vn])) vn obj field v).
  Proof. solve_time. Qed.
  Theorem date_from_source vn obj field v :
    run_rule orc U FE ST fn_Date vn obj field v =
    Some (str_text (s2b "it is not date, eg: 1996" ++ date_split vn ++ s2b "09" ++ date_split vn ++ s2b "28")
                   (time_ok orc (get_time_fmt 7 [date_split vn])) vn obj field v).
  Proof. solve_time. Qed.

  (* ---- Int, Float, Json, File, Dir ---- *)
  Definition msg_text (wording vn obj field echo : str) : str :=
    match pk_msg vn with
    | [] => join_valid_err obj field echo [ExplainEn; wording]
    | cus => join_valid_err obj field echo [cus]
    end.

  Definition int_text (vn obj field : str) (v : val) : str :=
    match v with
    | VStr s => if match_string (pats IntRe) s then [] else msg_text (s2b "it is not integer") vn obj field s
    | _ => if is_num_kind (kind v) false then [] else msg_text (s2b "it is not integer") vn obj field (to_str v)
    end.
  Definition float_text (vn obj field : str) (v : val) : str :=
    match v with
    | VStr s => if match_string (pats FloatRe) s then [] else msg_text (s2b "it is not float") vn obj field s
    | VFloat _ _ _ _ => []
    | _ => msg_text (s2b "it is not float") vn obj field (to_str v)
    end.
  Definition json_text (vn obj field : str) (v : val) : str :=
    match v with
    | VStr s =>
      if json_ok orc s then []
      else msg_text (s2b "it is not json") vn obj field
             (str_escape (if 256 <? Z.of_nat (List.length s) then s2b "more than 256 byte(it is ignore)" else s))
    | _ => join_valid_err obj field (value_string v) [ExplainEn; MUST_STR]
    end.
  (* after the repair a7bad91: an unreadable path shows the custom message when there is one, else os.Stat's text *)
  Definition file_text (want_dir : bool) (vn obj field : str) (v : val) : str :=
    match v with
    | VStr s =>
      match stat_lookup orc s with
      | None => match pk_msg vn with [] => join_valid_err obj field s [ST s] | cus => join_valid_err obj field s [cus] end
      | Some (is_dir, _) =>
        if Bool.eqb is_dir want_dir then []
        else msg_text (if want_dir then s2b "it is not dir" else s2b "it is not file") vn obj field s
      end
    | _ => join_valid_err obj field (value_string v) [ExplainEn; MUST_STR]
    end.

  Ltac gstep2 :=
    lazy beta iota zeta delta
      [run_rule rexec rexec_list reval rcall bind strs rset rempty fn_body check_str_err rkind kind_is kind_name_is_int existsb
       fn_Int fn_Float fn_Json fn_File fn_Dir
       width_name String.append String.eqb Ascii.eqb Bool.eqb andb orb negb fst snd];
    cbn [str_eqb value_string kind is_num_kind].

  Ltac solve_kinds :=
    match goal with |- context[run_rule _ _ _ _ _ _ _ _ ?v] => destruct v as [| | [] | [] | [] | | | | | | | | | |] end;
    gstep2; try reflexivity;
    try (match goal with |- context[match_string ?p ?x] => destruct (match_string p x) end; gstep2; try reflexivity);
    unfold msg_text; destruct (pk_msg _) as [|c0 m0]; gstep2; reflexivity.

  Theorem int_from_source vn obj field v : run_rule orc U FE ST fn_Int vn obj field v = Some (int_text vn obj field v).
  Proof. unfold int_text. solve_kinds. Qed.
  Theorem float_from_source vn obj field v : run_rule orc U FE ST fn_Float vn obj field v = Some (float_text vn obj field v).
  Proof. unfold float_text. solve_kinds. Qed.

  Theorem json_from_source vn obj field v : run_rule orc U FE ST fn_Json vn obj field v = Some (json_text vn obj field v).
  Proof.
    unfold json_text.
    destruct v as [| | [] | [] | [] | | | | | | | | | |]; gstep2; try reflexivity.
    destruct (json_ok orc s); gstep2; try reflexivity.
    change (Z.shiftl 2 7) with 256.
    destruct (256 <? Z.of_nat (List.length s)); gstep2;
      unfold msg_text; destruct (pk_msg _) as [|c0 m0]; gstep2; reflexivity.
  Qed.

  Ltac solve_file :=
    unfold file_text;
    match goal with |- context[run_rule _ _ _ _ _ _ _ _ ?v] => destruct v as [| | [] | [] | [] | | | | | | | | | |] end;
    gstep2; try reflexivity;
    match goal with |- context[stat_lookup orc ?x] => destruct (stat_lookup orc x) as [[[|] t]|] end; gstep2; try reflexivity;
    unfold msg_text; destruct (pk_msg _) as [|c0 m0]; gstep2; reflexivity.

  Theorem file_from_source vn obj field v : run_rule orc U FE ST fn_File vn obj field v = Some (file_text false vn obj field v).
  Proof. solve_file. Qed.
  Theorem dir_from_source vn obj field v : run_rule orc U FE ST fn_Dir vn obj field v = Some (file_text true vn obj field v).
  Proof. solve_file. Qed.

  Lemma jve_nonempty obj field echo others : join_valid_err obj field echo others <> [].
  Proof.
    unfold join_valid_err. intros H. apply app_eq_nil in H. destruct H as [_ H]. discriminate H.
  Qed.

  Theorem str_decides w rule ok vn obj field v :
    str_text w ok vn obj field v = [] <-> str_rule rule ok vn obj field v = [].
  Proof.
    unfold str_text, str_rule, check_is_str.
    destruct v; try (split; intros H; [exfalso; revert H; apply jve_nonempty | discriminate H]).
    cbn [str_of]. destruct (ok s); [split; reflexivity|].
    split; intros H; [exfalso; revert H; destruct (pk_msg vn); apply jve_nonempty | discriminate H].
  Qed.

  Lemma msg_nonempty w vn obj field echo : msg_text w vn obj field echo <> [].
  Proof. unfold msg_text. destruct (pk_msg vn); apply jve_nonempty. Qed.

  Ltac decide_tac :=
    split; intros H; try reflexivity; try discriminate H;
    exfalso; revert H; first [apply msg_nonempty | apply jve_nonempty | destruct (pk_msg _); apply jve_nonempty].

  Theorem int_decides vn obj field v : int_text vn obj field v = [] <-> rInt vn obj field v = [].
  Proof.
    unfold int_text, rInt. destruct v; cbn [kind is_num_kind]; try decide_tac.
    destruct (match_string (pats IntRe) s); decide_tac.
  Qed.
  Theorem float_decides vn obj field v : float_text vn obj field v = [] <-> rFloat vn obj field v = [].
  Proof.
    unfold float_text, rFloat. destruct v; try decide_tac.
    destruct (match_string (pats FloatRe) s); decide_tac.
  Qed.
  Theorem json_decides vn obj field v : json_text vn obj field v = [] <-> rJson orc vn obj field v = [].
  Proof.
    unfold json_text, rJson, check_is_str. destruct v; try decide_tac.
    cbn [str_of]. destruct (json_ok orc s); decide_tac.
  Qed.
  Theorem file_decides wd vn obj field v : file_text wd vn obj field v = [] <-> file_like orc wd vn obj field v = [].
  Proof.
    unfold file_text, file_like, check_is_str. destruct v; try decide_tac.
    cbn [str_of]. destruct (stat_lookup orc s) as [[d t]|]; [destruct (Bool.eqb d wd)|]; decide_tac.
  Qed.
End Texts.

(* the eleven string rules of the table (Model/Rules.v: rPhone ... rSuffix): the source function writes nothing to the
   error buffer exactly when the model's rule function reports no clause *)
Theorem str_rules_write_iff_clause (orc : oracles) (U : val -> str) (FE : str -> str -> ftext -> str) (ST : str -> str) vn obj field v :
  (run_rule orc U FE ST fn_Phone vn obj field v = Some [] <-> rPhone vn obj field v = []) /\
  (run_rule orc U FE ST fn_Email vn obj field v = Some [] <-> rEmail vn obj field v = []) /\
  (run_rule orc U FE ST fn_IDCard vn obj field v = Some [] <-> rIDCard vn obj field v = []) /\
  (run_rule orc U FE ST fn_Ip vn obj field v = Some [] <-> rIp orc vn obj field v = []) /\
  (run_rule orc U FE ST fn_Ipv4 vn obj field v = Some [] <-> rIpv4 orc vn obj field v = []) /\
  (run_rule orc U FE ST fn_Ipv6 vn obj field v = Some [] <-> rIpv6 orc vn obj field v = []) /\
  (run_rule orc U FE ST fn_Year vn obj field v = Some [] <-> rYear orc vn obj field v = []) /\
  (run_rule orc U FE ST fn_Year2Month vn obj field v = Some [] <-> rYear2Month orc vn obj field v = []) /\
  (run_rule orc U FE ST fn_Date vn obj field v = Some [] <-> rDate orc vn obj field v = []) /\
  (run_rule orc U FE ST fn_Prefix vn obj field v = Some [] <-> rPrefix vn obj field v = []) /\
  (run_rule orc U FE ST fn_Suffix vn obj field v = Some [] <-> rSuffix vn obj field v = []).
Proof.
  rewrite phone_from_source, email_from_source, idcard_from_source, ip_from_source, ipv4_from_source, ipv6_from_source,
          year_from_source, year2month_from_source, date_from_source, prefix_from_source, suffix_from_source.
  assert (S : forall a b : str, (Some a = Some b) <-> a = b) by (intros a b; split; [intros H; now inversion H | now intros ->]).
  rewrite !S. unfold rPhone, rEmail, rIDCard, rIp, rIpv4, rIpv6, rYear, rYear2Month, rDate, rPrefix, rSuffix.
  repeat split; apply str_decides.
Qed.

Theorem str_rules_from_source (orc : oracles) (U : val -> str) (FE : str -> str -> ftext -> str) (ST : str -> str) vn obj field v :
  run_rule orc U FE ST fn_Phone vn obj field v = Some (str_text (s2b "it is not phone") (match_string (pats PhoneRe)) vn obj field v) /\
  run_rule orc U FE ST fn_Email vn obj field v = Some (str_text (s2b "it is not email") (match_string (pats EmailRe)) vn obj field v) /\
  run_rule orc U FE ST fn_IDCard vn obj field v = Some (str_text (s2b "it is not idcard") (match_string (pats IdCardRe)) vn obj field v) /\
  run_rule orc U FE ST fn_Ip vn obj field v = Some (str_text (s2b "it is not ip") (fun s => fst (ip_lookup orc s)) vn obj field v) /\
  run_rule orc U FE ST fn_Ipv4 vn obj field v =
    Some (str_text (s2b "it is not ipv4") (fun s => fst (ip_lookup orc s) && snd (ip_lookup orc s)) vn obj field v) /\
  run_rule orc U FE ST fn_Ipv6 vn obj field v =
    Some (str_text (s2b "it is not ipv6") (fun s => fst (ip_lookup orc s) && negb (snd (ip_lookup orc s))) vn obj field v) /\
  run_rule orc U FE ST fn_Year vn obj field v =
    Some (str_text (s2b "it is not year, eg: 1996") (time_ok orc (get_time_fmt 1 [])) vn obj field v) /\
  run_rule orc U FE ST fn_Year2Month vn obj field v =
    Some (str_text (s2b "it is not year2month, eg: 1996" ++ date_split vn ++ s2b "09")
                   (time_ok orc (get_time_fmt 3 [date_split vn])) vn obj field v) /\
  run_rule orc U FE ST fn_Date vn obj field v =
    Some (str_text (s2b "it is not date, eg: 1996" ++ date_split vn ++ s2b "09" ++ date_split vn ++ s2b "28")
                   (time_ok orc (get_time_fmt 7 [date_split vn])) vn obj field v) /\
  run_rule orc U FE ST fn_Prefix vn obj field v =
    Some (str_text (s2b "prefix is not ok") (fun s => has_prefix s (trim [QUOTE] (pk_val vn))) vn obj field v) /\
  run_rule orc U FE ST fn_Suffix vn obj field v =
    Some (str_text (s2b "suffix is not ok") (fun s => has_suffix s (trim [QUOTE] (pk_val vn))) vn obj field v).
Proof.
  repeat split; [apply phone_from_source|apply email_from_source|apply idcard_from_source|apply ip_from_source
                |apply ipv4_from_source|apply ipv6_from_source|apply year_from_source|apply year2month_from_source
                |apply date_from_source|apply prefix_from_source|apply suffix_from_source].
Qed.

(* Int, Float, Json, File, Dir *)
Theorem content_rules_from_source (orc : oracles) (U : val -> str) (FE : str -> str -> ftext -> str) (ST : str -> str) vn obj field v :
  run_rule orc U FE ST fn_Int vn obj field v = Some (int_text vn obj field v) /\
  run_rule orc U FE ST fn_Float vn obj field v = Some (float_text vn obj field v) /\
  run_rule orc U FE ST fn_Json vn obj field v = Some (json_text orc vn obj field v) /\
  run_rule orc U FE ST fn_File vn obj field v = Some (file_text orc ST false vn obj field v) /\
  run_rule orc U FE ST fn_Dir vn obj field v = Some (file_text orc ST true vn obj field v).
Proof.
  repeat split; [apply int_from_source|apply float_from_source|apply json_from_source|apply file_from_source|apply dir_from_source].
Qed.

Theorem content_rules_write_iff_clause (orc : oracles) (U : val -> str) (FE : str -> str -> ftext -> str) (ST : str -> str) vn obj field v :
  (run_rule orc U FE ST fn_Int vn obj field v = Some [] <-> rInt vn obj field v = []) /\
  (run_rule orc U FE ST fn_Float vn obj field v = Some [] <-> rFloat vn obj field v = []) /\
  (run_rule orc U FE ST fn_Json vn obj field v = Some [] <-> rJson orc vn obj field v = []) /\
  (run_rule orc U FE ST fn_File vn obj field v = Some [] <-> rFile orc vn obj field v = []) /\
  (run_rule orc U FE ST fn_Dir vn obj field v = Some [] <-> rDir orc vn obj field v = []).
Proof.
  rewrite int_from_source, float_from_source, json_from_source, file_from_source, dir_from_source.
  assert (S : forall a b : str, (Some a = Some b) <-> a = b) by (intros a b; split; [intros H; now inversion H | now intros ->]).
  rewrite !S. unfold rFile, rDir.
  repeat split; first [apply int_decides | apply float_decides | apply json_decides | apply file_decides].
Qed.
