(* GoRuleProofs.v — the bodies of To, OTo, Ge, Gt, Le, Lt, Eq and NoEq (valid/validfn.go) extracted from /repo write,
   for every rule text, object name, field name and value, exactly the text the size-rule model predicts; in
   particular they write something exactly when the model's rule function reports a clause. *)
From Coq Require Import String.
From PGV Require Import Base.Bytes Base.GoStr Base.GoNum Base.Utf8 Base.MiniGo.
From PGV Require Import Regex.Re Regex.Rx Extracted.SourceConst Extracted.SourceRegex Extracted.SourceFnsRule Extracted.SourceFnsFmt.
From PGV Require Import Model.RuleText Model.Value Model.Clause Model.Rules Model.GoRule.
Open Scope Z_scope.

Section Texts.
  Variable orc : oracles.
  Variable U : val -> str.
  Variable FE : str -> str -> ftext -> str.
  Variable ST : str -> str.

  (* the clause one size rule writes: the custom message alone, or the default wording with bound and unit *)
  Definition size_clause (wording obj field echo cus : str) (bound : str) (v : val) : str :=
    match cus with
    | [] => join_valid_err obj field echo [ExplainEn; wording; bound; U v]
    | _ => join_valid_err obj field echo [cus]
    end.

  Definition W_LT := s2b "it is less than".
  Definition W_GT := s2b "it is more than".
  Definition W_LE := s2b "it is less than or equal".
  Definition W_GE := s2b "it is more than or equal".
  Definition W_EQ := s2b "it should equal".
  Definition W_NE := s2b "it is not equal".

  Definition to_text (he : bool) (vn obj field : str) (v : val) : str :=
    match parse_tag_to (pk_val vn) (if he then s2b "to" else s2b "oto") with
    | inr t => FE obj field t
    | inl (mn, mx) =>
      let '(lt, gt, vs) := valid_input_size mn mx v he in
      if lt then size_clause (if he then W_LT else W_LE) obj field vs (pk_msg vn) (itoa mn) v
      else if gt then size_clause (if he then W_GT else W_GE) obj field vs (pk_msg vn) (itoa mx) v
      else []
    end.

  Definition one_text (lower he : bool) (vn obj field : str) (v : val) : str :=
    let b := fst (atoi (pk_val vn)) in
    let '(lt, gt, vs) := if lower then valid_input_size b 0 v he else valid_input_size 0 b v he in
    if (if lower then lt else gt)
    then size_clause (if lower then (if he then W_LT else W_LE) else (if he then W_GT else W_GE)) obj field vs (pk_msg vn) (itoa b) v
    else [].

  Definition eq_text (want : bool) (vn obj field : str) (v : val) : str :=
    if Bool.eqb (eq_holds (fst (atoi (pk_val vn))) v) want then []
    else size_clause (if want then W_EQ else W_NE) obj field (to_str v) (pk_msg vn) (pk_val vn) v.

  Ltac rstep :=
    lazy beta iota zeta delta
      [run_rule rexec rexec_list reval rcall bind strs rset rempty fn_body
       fn_To fn_OTo fn_Ge fn_Gt fn_Le fn_Lt fn_Eq fn_NoEq
       String.eqb Ascii.eqb Bool.eqb andb orb negb fst snd];
    cbn [str_eqb].

  Theorem to_from_source vn obj field v : run_rule orc U FE ST fn_To vn obj field v = Some (to_text true vn obj field v).
  Proof.
    unfold to_text. rstep.
    destruct (parse_tag_to (pk_val vn) (s2b "to")) as [[mn mx]|t]; rstep; [|reflexivity].
    destruct (valid_input_size mn mx v true) as [[lt gt] vs]; rstep.
    unfold size_clause. destruct (pk_msg vn) as [|c m]; destruct lt, gt; rstep; reflexivity.
  Qed.

  Theorem oto_from_source vn obj field v : run_rule orc U FE ST fn_OTo vn obj field v = Some (to_text false vn obj field v).
  Proof.
    unfold to_text. rstep.
    destruct (parse_tag_to (pk_val vn) (s2b "oto")) as [[mn mx]|t]; rstep; [|reflexivity].
    destruct (valid_input_size mn mx v false) as [[lt gt] vs]; rstep.
    unfold size_clause. destruct (pk_msg vn) as [|c m]; destruct lt, gt; rstep; reflexivity.
  Qed.

  Ltac solve_one :=
    unfold one_text; rstep;
    match goal with |- context[valid_input_size ?a ?b ?v ?h] =>
      let b1 := fresh "b1" in let b2 := fresh "b2" in
      destruct (valid_input_size a b v h) as [[b1 b2] vs]; rstep;
      unfold size_clause; destruct (pk_msg _) as [|c m]; destruct b1, b2; rstep; reflexivity
    end.

  Theorem ge_from_source vn obj field v : run_rule orc U FE ST fn_Ge vn obj field v = Some (one_text true true vn obj field v).
  Proof. solve_one. Qed.
  Theorem gt_from_source vn obj field v : run_rule orc U FE ST fn_Gt vn obj field v = Some (one_text true false vn obj field v).
  Proof. solve_one. Qed.
  Theorem le_from_source vn obj field v : run_rule orc U FE ST fn_Le vn obj field v = Some (one_text false true vn obj field v).
  Proof. solve_one. Qed.
  Theorem lt_from_source vn obj field v : run_rule orc U FE ST fn_Lt vn obj field v = Some (one_text false false vn obj field v).
  Proof. solve_one. Qed.

  Ltac solve_eq :=
    unfold eq_text; rstep; destruct (eq_holds _ _); rstep; try reflexivity;
    unfold size_clause; destruct (pk_msg _) as [|c m]; rstep; reflexivity.

  Theorem eq_rule_from_source vn obj field v : run_rule orc U FE ST fn_Eq vn obj field v = Some (eq_text true vn obj field v).
  Proof. solve_eq. Qed.
  Theorem noeq_rule_from_source vn obj field v : run_rule orc U FE ST fn_NoEq vn obj field v = Some (eq_text false vn obj field v).
  Proof. solve_eq. Qed.

  (* ---- what the written text says about the model's rule functions (Model/Rules.v) ---- *)
  Lemma jve_nonempty obj field echo others : join_valid_err obj field echo others <> [].
  Proof.
    unfold join_valid_err. intros H. apply app_eq_nil in H. destruct H as [_ H]. discriminate H.
  Qed.
  Lemma size_clause_nonempty w obj field echo cus b v : size_clause w obj field echo cus b v <> [].
  Proof. unfold size_clause. destruct cus; apply jve_nonempty. Qed.

  Lemma jve_custom obj field echo cus : cus <> [] ->
    exists t, clause_text (CValid obj field echo (body_of cus (s2b "x"))) = Some t /\
              join_valid_err obj field echo [cus] = t ++ ErrEndFlag.
  Proof.
    intros H. destruct cus as [|c m]; [congruence|]. unfold body_of, clause_text. eexists. split; [reflexivity|].
    unfold join_valid_err. cbn [join]. rewrite <- !app_assoc. reflexivity.
  Qed.

  Lemma parse_tag_to_rule x r1 r2 :
    match parse_tag_to x r1, parse_tag_to x r2 with
    | inl p, inl q => p = q
    | inr _, inr _ => True
    | _, _ => False
    end.
  Proof.
    unfold parse_tag_to. destruct (split x TILDE) as [|a [|b [|c l]]]; auto.
    destruct (atoi a) as [mn [|]]; auto. destruct (atoi b) as [mx [|]]; auto.
  Qed.

  Hypothesis FE_nonempty : forall o f t, FE o f t <> [].

  Theorem to_decides he vn obj field v : to_text he vn obj field v = [] <-> to_like he vn obj field v = [].
  Proof.
    unfold to_text, to_like.
    pose proof (parse_tag_to_rule (pk_val vn) (if he then s2b "to" else s2b "oto") (s2b "to")) as Hp.
    destruct (parse_tag_to (pk_val vn) (if he then s2b "to" else s2b "oto")) as [[mn mx]|t];
      destruct (parse_tag_to (pk_val vn) (s2b "to")) as [[mn' mx']|t']; try contradiction.
    - inversion Hp; subst. destruct (valid_input_size mn' mx' v he) as [[lt gt] vs].
      destruct lt, gt; cbn [orb]; split; intros H; try reflexivity; try discriminate H;
        exfalso; revert H; apply size_clause_nonempty.
    - split; intros H; [exfalso; revert H; apply FE_nonempty | discriminate H].
  Qed.

  Theorem one_decides lower he rule vn obj field v :
    one_text lower he vn obj field v = [] <-> one_sided lower he rule vn obj field v = [].
  Proof.
    unfold one_text, one_sided.
    destruct lower;
      match goal with |- context[valid_input_size ?a ?b ?v ?h] => destruct (valid_input_size a b v h) as [[b1 b2] vs] end;
      [destruct b1 | destruct b2]; split; intros H; try reflexivity; try discriminate H;
      exfalso; revert H; apply size_clause_nonempty.
  Qed.

  Theorem eq_decides want vn obj field v : eq_text want vn obj field v = [] <-> eq_like want vn obj field v = [].
  Proof.
    unfold eq_text, eq_like. destruct (Bool.eqb _ want); split; intros H; try reflexivity; try discriminate H.
    exfalso; revert H; apply size_clause_nonempty.
  Qed.
End Texts.

(* the eight size rule functions of the table (Model/Rules.v: rTo ... rNoEq): the source function writes nothing to the
   error buffer exactly when the model's rule function reports no clause *)
Theorem size_rules_write_iff_clause (orc : oracles) (U : val -> str) (FE : str -> str -> ftext -> str) (ST : str -> str) :
  (forall o f t, FE o f t <> []) -> forall vn obj field v,
  (run_rule orc U FE ST fn_To vn obj field v = Some [] <-> rTo vn obj field v = []) /\
  (run_rule orc U FE ST fn_OTo vn obj field v = Some [] <-> rOTo vn obj field v = []) /\
  (run_rule orc U FE ST fn_Ge vn obj field v = Some [] <-> rGe vn obj field v = []) /\
  (run_rule orc U FE ST fn_Gt vn obj field v = Some [] <-> rGt vn obj field v = []) /\
  (run_rule orc U FE ST fn_Le vn obj field v = Some [] <-> rLe vn obj field v = []) /\
  (run_rule orc U FE ST fn_Lt vn obj field v = Some [] <-> rLt vn obj field v = []) /\
  (run_rule orc U FE ST fn_Eq vn obj field v = Some [] <-> rEq vn obj field v = []) /\
  (run_rule orc U FE ST fn_NoEq vn obj field v = Some [] <-> rNoEq vn obj field v = []).
Proof.
  intros Hne vn obj field v.
  rewrite to_from_source, oto_from_source, ge_from_source, gt_from_source, le_from_source, lt_from_source,
          eq_rule_from_source, noeq_rule_from_source.
  assert (S : forall a b : str, (Some a = Some b) <-> a = b) by (intros a b; split; [intros H; now inversion H | now intros ->]).
  rewrite !S. unfold rTo, rOTo, rGe, rGt, rLe, rLt, rEq, rNoEq.
  repeat split; try (apply (to_decides U FE Hne)); try (apply (one_decides U)); try (apply (eq_decides U)).
Qed.

Theorem size_rules_from_source (orc : oracles) (U : val -> str) (FE : str -> str -> ftext -> str) (ST : str -> str) vn obj field v :
  run_rule orc U FE ST fn_To vn obj field v = Some (to_text U FE true vn obj field v) /\
  run_rule orc U FE ST fn_OTo vn obj field v = Some (to_text U FE false vn obj field v) /\
  run_rule orc U FE ST fn_Ge vn obj field v = Some (one_text U true true vn obj field v) /\
  run_rule orc U FE ST fn_Gt vn obj field v = Some (one_text U true false vn obj field v) /\
  run_rule orc U FE ST fn_Le vn obj field v = Some (one_text U false true vn obj field v) /\
  run_rule orc U FE ST fn_Lt vn obj field v = Some (one_text U false false vn obj field v) /\
  run_rule orc U FE ST fn_Eq vn obj field v = Some (eq_text U true vn obj field v) /\
  run_rule orc U FE ST fn_NoEq vn obj field v = Some (eq_text U false vn obj field v).
Proof.
  repeat split; [apply to_from_source|apply oto_from_source|apply ge_from_source|apply gt_from_source|apply le_from_source
                |apply lt_from_source|apply eq_rule_from_source|apply noeq_rule_from_source].
Qed.
