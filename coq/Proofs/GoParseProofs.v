(* GoParseProofs.v — the body of ParseValidNameKV extracted from /repo computes the model's parse_kv. *)
From Coq Require Import String.
From PGV Require Import Base.Bytes Base.GoStr Base.Utf8 Base.MiniGo Extracted.SourceConst Extracted.SourceFnsParse.
From PGV Require Import Model.RuleText Model.GoParse.
Open Scope Z_scope.

Ltac pstep :=
  lazy beta iota zeta delta
    [run_parse pexec pexec_list peval pset pempty index1 fn_body fn_ParseValidNameKV
     String.eqb Ascii.eqb Bool.eqb andb orb negb].

Lemma idx_bound c (s : str) n : index_byte c s = Some n -> (n < List.length s)%nat.
Proof.
  revert n. induction s as [|x s IH]; intros n; cbn [index_byte]; [discriminate|].
  destruct (N.eqb x c); [intros H; inversion H; cbn; lia|].
  destruct (index_byte c s) as [m|]; [|discriminate]. intros H. inversion H; subst. cbn. specialize (IH m eq_refl). lia.
Qed.

Lemma of_nat_ne_m1 n : (Z.of_nat n =? -1) = false.
Proof. apply Z.eqb_neq. lia. Qed.
Lemma ltb_nat a b : (Z.of_nat a <? Z.of_nat b) = Nat.ltb a b.
Proof. destruct (Nat.ltb_spec a b); [apply Z.ltb_lt|apply Z.ltb_ge]; lia. Qed.
Lemma ltb_nat1 a b : (Z.of_nat a + 1 <? Z.of_nat b) = Nat.ltb (a + 1) b.
Proof. destruct (Nat.ltb_spec (a + 1) b); [apply Z.ltb_lt|apply Z.ltb_ge]; lia. Qed.

Lemma slice_hi (s : str) n : (n <= List.length s)%nat -> slice_of s None (Some (Z.of_nat n)) = PS (firstn n s).
Proof.
  intros H. unfold slice_of. replace ((0 <=? Z.of_nat n) && (Z.of_nat n <=? Z.of_nat (List.length s))) with true.
  - now rewrite Nat2Z.id.
  - symmetry. apply andb_true_intro. split; apply Z.leb_le; lia.
Qed.
Lemma slice_lo (s : str) n : (n + 1 <= List.length s)%nat -> slice_of s (Some (Z.of_nat n + 1)) None = PS (skipn (n + 1) s).
Proof.
  intros H. unfold slice_of. replace ((0 <=? Z.of_nat n + 1) && (Z.of_nat n + 1 <=? Z.of_nat (List.length s))) with true.
  - replace (Z.to_nat (Z.of_nat n + 1)) with (n + 1)%nat by lia. reflexivity.
  - symmetry. apply andb_true_intro. split; apply Z.leb_le; lia.
Qed.

Theorem parse_from_source s : run_parse fn_ParseValidNameKV s = Some (parse_kv s).
Proof.
  unfold parse_kv, EQ, BAR. pstep. cbn [Z.opp].
  destruct (index_byte 61%N s) as [e|] eqn:Ee; destruct (index_byte 124%N s) as [b|] eqn:Eb;
    rewrite ?of_nat_ne_m1, ?ltb_nat, ?ltb_nat1, ?Z.eqb_refl; cbn [negb];
    try (pose proof (idx_bound _ _ _ Ee) as He); try (pose proof (idx_bound _ _ _ Eb) as Hb).
  all: repeat (pstep; first
        [ rewrite slice_hi by lia
        | rewrite slice_lo by lia
        | match goal with |- context[if Nat.ltb ?x ?y then _ else _] => let H := fresh "L" in destruct (Nat.ltb_spec x y) as [H|H] end
        | match goal with |- context[if has_zh ?m then _ else _] => destruct (has_zh m) eqn:? end
        | match goal with |- context[index_byte 124%N (skipn ?k ?ss)] =>
            let b' := fresh "b'" in let E := fresh "Eb'" in
            destruct (index_byte 124%N (skipn k ss)) as [b'|] eqn:E;
            [pose proof (idx_bound _ _ _ E)|]; rewrite ?of_nat_ne_m1, ?ltb_nat1, ?Z.eqb_refl; cbn [negb] end ]).
  all: unfold label; try match goal with H : has_zh _ = _ |- _ => rewrite H end; rewrite <- ?app_assoc; try reflexivity.
Qed.

(* ---------- IsExported (valid/common.go) and GenValidKV (valid/rule.go) ---------- *)
Ltac pstep2 :=
  lazy beta iota zeta delta
    [run_bool pexec pexec_list peval pset pempty fn_body fn_params fn_IsExported
     String.eqb Ascii.eqb Bool.eqb andb orb negb].

Definition is_exported_model (name : str) : bool :=
  match name with c :: _ => (65 <=? c)%N && (c <=? 90)%N | [] => false end.

Theorem is_exported_from_source name : run_bool fn_IsExported name = Some (is_exported_model name).
Proof.
  destruct name as [|c r]; pstep2; [reflexivity|].
  cbn [str_eqb nth_error Z.to_nat Z.leb Z.compare]. pstep2.
  replace (65 <=? Z.of_N c) with (65 <=? c)%N by (destruct (N.leb_spec 65 c); symmetry; [apply Z.leb_le|apply Z.leb_gt]; lia).
  replace (Z.of_N c <=? 90) with (c <=? 90)%N by (destruct (N.leb_spec c 90); symmetry; [apply Z.leb_le|apply Z.leb_gt]; lia).
  reflexivity.
Qed.

(* corollaries for C13: these bodies never index or slice out of range *)
Lemma parser_never_panics (s : str) : exists r, run_parse fn_ParseValidNameKV s = Some r.
Proof. eexists. apply parse_from_source. Qed.
Lemma is_exported_never_panics (name : str) : exists b, run_bool fn_IsExported name = Some b.
Proof. eexists. apply is_exported_from_source. Qed.
