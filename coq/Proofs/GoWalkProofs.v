(* GoWalkProofs.v — the flat walkers and the function lookup from the source text: what the syntax trees of
   validCommon.getValidFn, VVar.validate, VMap.validate, VMap.getKey and VUrl.validate (regenerated from /repo on every
   run) compute under the semantics of Model/GoWalk.v is the hand model of Model/Walk.v. *)
From Coq Require Import String.
From PGV Require Import Base.Bytes Base.GoStr Base.GoNum Base.Utf8 Base.Url Base.MiniGo.
From PGV Require Import Extracted.SourceConst Extracted.SourceTable Extracted.SourceFnsWalk.
From PGV Require Import Model.RuleText Model.Value Model.Clause Model.Rules Model.Walk Model.GoWalk.
Open Scope Z_scope.

(* ---------- loops ---------- *)
Definition norm_iter (f : wflow) : wflow :=
  match f with FNext e b | FCont e b => FNext (pop_to "{loop" e) b | other => other end.
Definition lift (e : wenv) (r : res buf) : wflow :=
  match r with Ok b => FNext e b | Panic w => FAbort (Some w) | OutOfFuel => FAbort None end.
Fixpoint fold_res {A} (F : A -> buf -> res buf) (l : list A) (b : buf) : res buf :=
  match l with [] => Ok b | x :: r => b1 <- F x b ;; fold_res F r b1 end.

(* a loop whose iterations leave the bindings in a known family E i (i: what the iteration assigned to outer variables)
   and act on the buffer as F does is the fold of F *)
Lemma gen_loop_fold {A I} (E : I -> wenv) (nxt : I -> A -> I) (F : A -> buf -> res buf) iter :
  (forall i x b, norm_iter (iter x (E i) b) = lift (E (nxt i x)) (F x b)) ->
  forall l i b, gen_loop iter l (E i) b = lift (E (fold_left nxt l i)) (fold_res F l b).
Proof.
  intros H. induction l as [|x r IH]; intros i b; cbn [gen_loop fold_left fold_res]; [reflexivity|].
  specialize (H i x b). destruct (F x b) as [b'| w |]; cbn [lift bind] in *.
  - destruct (iter x (E i) b) as [e1 b1|e1 b1|e1 b1|vs b1|w|]; cbn [norm_iter] in H; try discriminate H;
      inversion H as [[H1 H2]]; rewrite H1; apply IH.
  - destruct (iter x (E i) b) as [e1 b1|e1 b1|e1 b1|vs b1|w'|]; cbn [norm_iter] in H; try discriminate H. exact H.
  - destruct (iter x (E i) b) as [e1 b1|e1 b1|e1 b1|vs b1|w'|]; cbn [norm_iter] in H; try discriminate H. exact H.
Qed.

Lemma var_rules_fold c tv l b : var_rules c tv l b = fold_res (var_rule c tv) l b.
Proof. revert b. induction l as [|x r IH]; intros b; cbn [var_rules fold_res]; [reflexivity|]. destruct (var_rule c tv x b); cbn [bind]; auto. Qed.
Lemma map_rules_fold c p k v l b : map_rules c p k v l b = fold_res (map_rule c p k v) l b.
Proof. revert b. induction l as [|x r IH]; intros b; cbn [map_rules fold_res]; [reflexivity|]. destruct (map_rule c p k v x b); cbn [bind]; auto. Qed.
Lemma url_rules_fold c k v l b : url_rules c k v l b = fold_res (url_rule c k v) l b.
Proof. revert b. induction l as [|x r IH]; intros b; cbn [url_rules fold_res]; [reflexivity|]. destruct (url_rule c k v x b); cbn [bind]; auto. Qed.

Ltac wstep0 :=
  lazy beta iota zeta delta
    [run_var_validate run_map_validate run_url_validate run_get_key run_get_valid_fn flow_res base_env
     wexec wexec_list weval wcall wbind wget wupd wdecl pop_to open_scope decl_strings
     weq wnot first_abort strs_of clause_of_join member_of kv_get of_res_bool of_res_z range_loop iter_loop
     norm_iter lift is_ferr of_reg wkind kd_name kind get_fn_pair vlen
     fn_body fn_validCommon_getValidFn fn_VVar_validate fn_VMap_validate fn_VMap_getKey fn_VUrl_validate
     String.eqb Ascii.eqb Bool.eqb andb orb negb fst snd option_map List.map existsb last
     Z.opp Z.eqb Pos.eqb Z.leb Z.ltb Z.compare Pos.compare Pos.compare_cont Z.to_nat Pos.to_nat Pos.iter_op Nat.add nth_error Z.add
     Pos.add Pos.succ Z.of_nat Pos.of_succ_nat List.length].


Ltac wstep :=
  lazy beta iota zeta delta
    [run_var_validate run_map_validate run_url_validate run_get_key run_get_valid_fn flow_res base_env
     wexec wexec_list weval wcall wbind wget wupd wdecl pop_to open_scope decl_strings
     weq wnot first_abort strs_of clause_of_join member_of kv_get of_res_bool of_res_z range_loop iter_loop
     norm_iter lift is_ferr of_reg wkind kd_name kind get_fn_pair vlen
     fn_body fn_validCommon_getValidFn fn_VVar_validate fn_VMap_validate fn_VMap_getKey fn_VUrl_validate
     String.eqb Ascii.eqb Bool.eqb andb orb negb fst snd option_map List.map existsb last
     Z.opp Z.eqb Pos.eqb Z.leb Z.ltb Z.compare Pos.compare Pos.compare_cont Z.to_nat Pos.to_nat Pos.iter_op Nat.add nth_error Z.add
     Pos.add Pos.succ Z.of_nat Pos.of_succ_nat List.length
     not_exist_text no_support_text mark_clause req_body body_of s2b app Bytes.bind Ascii.N_of_ascii Ascii.N_of_digits N.add N.mul N.double N.succ_double Pos.mul].

Ltac same := lazymatch goal with |- ?a = ?b => first [constr_eq a b; reflexivity | timeout 30 reflexivity | fail 1 "the two sides differ"] end.

Section Walk.
  Variable c : cfg.
  Variable rules : rm.

  (* ---------- VMap.getKey ---------- *)
  Theorem get_key_from_source prefix key : run_get_key c rules fn_VMap_getKey prefix key = Some (map_get_key prefix key).
  Proof.
    unfold map_get_key. wstep0.
    destruct prefix as [|p0 p]; destruct key as [|k0 k]; cbn [str_eqb]; wstep0; try reflexivity.
    all: rewrite <- ?app_assoc; reflexivity.
  Qed.

  (* ---------- validCommon.getValidFn and its three wrappers ---------- *)
  Lemma get_fn_global name :
    get_fn c name = match lookup1 name (c_local c) with
                    | Some r => of_reg r
                    | None => match global_fn c name with Some r => r | None => FErr end
                    end.
  Proof.
    unfold get_fn, global_fn, of_reg. destruct (lookup1 name (c_local c)) as [r|]; [reflexivity|].
    destruct (lookup1 name (c_global c)) as [r|]; [reflexivity|].
    destruct (lookup1 name rule_table) as [[fname|]|]; try reflexivity.
    destruct (fn_by_name (c_orc c) fname); reflexivity.
  Qed.

  Lemma global_fn_not_err name r : global_fn c name = Some r -> is_ferr r = false.
  Proof.
    unfold global_fn. destruct (lookup1 name (c_global c)) as [[|t]|]; [intros H; inversion H; reflexivity..|].
    destruct (lookup1 name rule_table) as [[fname|]|]; try discriminate.
    - destruct (fn_by_name (c_orc c) fname); cbn [option_map]; intros H; inversion H; reflexivity.
    - intros H; inversion H; reflexivity.
  Qed.

  Theorem get_valid_fn_from_source name :
    run_get_valid_fn c rules fn_validCommon_getValidFn name = Some (get_fn_pair c name).
  Proof.
    unfold get_fn_pair. rewrite get_fn_global. wstep0.
    destruct (lookup1 name (c_local c)) as [[|t]|]; wstep0; try reflexivity.
    destruct (global_fn c name) as [r|] eqn:Eg; [|wstep0; reflexivity].
    pose proof (global_fn_not_err _ _ Eg) as Hr. destruct r; try discriminate Hr; wstep0; reflexivity.
  Qed.

  (* the walkers' own getValidFn methods delegate to it, word for word *)
  Definition delegation : list stmt :=
    [SReturn [ECall (ESel (ESel (EId "v") "vc") "getValidFn") [EId "validName"]]]%string.
  Theorem get_valid_fn_wrappers :
    fn_body fn_VVar_getValidFn = delegation /\ fn_body fn_VMap_getValidFn = delegation /\ fn_body fn_VUrl_getValidFn = delegation.
  Proof. repeat split; reflexivity. Qed.

End Walk.
