(* GoTagsProofs.v — tagItems.override (file/handletag.go) from the source text computes the model's override on every
   pair of tag lists: two nested loops, each by an invariant. *)
From Coq Require Import String.
From PGV Require Import Base.Bytes Base.GoStr Base.MiniGo Extracted.SourceFnsTags Model.Inject Model.GoTags.
Open Scope Z_scope.

Definition not_inner (x : string) : Prop := String.eqb x "dup" = false /\ String.eqb x "j" = false.

(* the inner loop: the first index j >= start whose key is k, or -1 *)
Lemma inner_loop (k : str) (its : tagitems) (ibody : Z -> tenv -> tflow) (Inv : tenv -> Prop) :
  (forall e0 z, Inv e0 -> Inv (tset "j" (TZ z) e0)) -> (forall e0, Inv e0 -> e0 "dup"%string = TZ (-1)) ->
  (forall j it e0, nth_error its j = Some it -> Inv e0 ->
     ibody (Z.of_nat j) e0 =
       if str_eqb k (fst it) then TBrk (tset "dup" (TZ (Z.of_nat j)) (tset "j" (TZ (Z.of_nat j)) e0))
       else TNext (tset "j" (TZ (Z.of_nat j)) e0)) ->
  forall n start e, (start + n = List.length its)%nat -> Inv e ->
  exists e', idx_loop n (Z.of_nat start) ibody e = TNext e' /\
             e' "dup"%string = TZ (match find_dup k (skipn start its) with Some d => Z.of_nat (start + d) | None => -1 end) /\
             (forall x, not_inner x -> e' x = e x).
Proof.
  intros Hinv Hd1 Hib. induction n as [|n IH]; intros start e Hlen Hdup; cbn [idx_loop].
  - exists e. rewrite skipn_all2 by lia. cbn [find_dup]. split; [reflexivity|]. split; [apply Hd1; exact Hdup|auto].
  - destruct (nth_error its start) as [it|] eqn:En; [|apply nth_error_None in En; lia].
    rewrite (Hib start it e En Hdup).
    assert (Hsk : skipn start its = it :: skipn (S start) its).
    { clear - En. revert start En. induction its as [|a its IH]; intros [|s] En; cbn in *; try discriminate.
      - inversion En; reflexivity.
      - apply IH. exact En. }
    rewrite Hsk. cbn [find_dup]. destruct (str_eqb k (fst it)).
    + eexists. split; [reflexivity|]. split.
      * unfold tset. cbn. f_equal. lia.
      * intros x (H1 & H2). unfold tset. rewrite H1, H2. reflexivity.
    + replace (Z.of_nat start + 1) with (Z.of_nat (S start)) by lia.
      destruct (IH (S start) (tset "j" (TZ (Z.of_nat start)) e)) as (e' & He' & Hd & Hag); [lia|apply Hinv; exact Hdup|].
      exists e'. split; [exact He'|]. split.
      * rewrite Hd. destruct (find_dup k (skipn (S start) its)); cbn [option_map]; f_equal; lia.
      * intros x Hx. rewrite (Hag x Hx). destruct Hx as (H1 & H2). unfold tset. rewrite H2. reflexivity.
Qed.

Lemma skipn_cons {X} (l : list X) : forall n x, nth_error l n = Some x -> skipn n l = x :: skipn (S n) l.
Proof.
  induction l as [|a l IH]; intros [|n] x H; cbn in *; try discriminate.
  - inversion H; reflexivity.
  - apply IH. exact H.
Qed.

(* the outer loop: one step of the model's override_loop per element of t *)
Lemma outer_loop (t : tagitems) (obody : Z -> tenv -> tflow) :
  (forall i ti e0 acc its, nth_error t i = Some ti ->
     e0 "t"%string = TItems t -> e0 "overridEd"%string = TItems acc -> e0 "inTags"%string = TItems its ->
     exists e1, obody (Z.of_nat i) e0 = TNext e1 /\ e1 "t"%string = TItems t /\
       e1 "overridEd"%string = TItems (match find_dup (fst ti) its with None => acc ++ [ti] | Some d => acc ++ [nth d its ti] end) /\
       e1 "inTags"%string = TItems (match find_dup (fst ti) its with None => its | Some d => remove_at d its end)) ->
  forall n start e acc its, (start + n = List.length t)%nat ->
    e "t"%string = TItems t -> e "overridEd"%string = TItems acc -> e "inTags"%string = TItems its ->
    exists e' acc' its', idx_loop n (Z.of_nat start) obody e = TNext e' /\
      e' "overridEd"%string = TItems acc' /\ e' "inTags"%string = TItems its' /\
      override_loop (skipn start t) its acc = acc' ++ its'.
Proof.
  intros Hob. induction n as [|n IH]; intros start e acc its Hlen Ht Hacc Hits; cbn [idx_loop].
  - exists e, acc, its. rewrite skipn_all2 by lia. cbn [override_loop]. auto.
  - destruct (nth_error t start) as [ti|] eqn:En; [|apply nth_error_None in En; lia].
    destruct (Hob start ti e acc its En Ht Hacc Hits) as (e1 & Hb & Ht1 & Hacc1 & Hits1). rewrite Hb.
    replace (Z.of_nat start + 1) with (Z.of_nat (S start)) by lia.
    rewrite (skipn_cons t start ti En). cbn [override_loop].
    destruct (find_dup (fst ti) its) as [d|];
      (destruct (IH (S start) e1 _ _ ltac:(lia) Ht1 Hacc1 Hits1) as (e' & acc' & its' & He' & Ha & Hi & Hov);
       exists e', acc', its'; auto).
Qed.

Lemma find_dup_nth k : forall its d, find_dup k its = Some d ->
  exists it, nth_error its d = Some it /\ (forall dflt, nth d its dflt = it) /\ (d < List.length its)%nat.
Proof.
  induction its as [|a its IH]; intros d; cbn [find_dup]; [discriminate|].
  destruct (str_eqb k (fst a)).
  - intros H; inversion H; subst. exists a. cbn. repeat split; auto; lia.
  - destruct (find_dup k its) as [m|]; [|discriminate]. intros H; inversion H; subst.
    destruct (IH m eq_refl) as (it & H1 & H2 & H3). exists it. cbn. repeat split; auto; lia.
Qed.
Lemma remove_at_split {X} : forall (l : list X) d, firstn d l ++ skipn (S d) l = remove_at d l.
Proof.
  induction l as [|a l IH]; intros [|d]; cbn [firstn skipn remove_at app]; try reflexivity.
  rewrite <- IH. reflexivity.
Qed.
Lemma tslice_to (l : tagitems) d : (d <= List.length l)%nat -> tslice l None (Some (Z.of_nat d)) = TItems (firstn d l).
Proof.
  intros H. unfold tslice. replace ((0 <=? 0) && (0 <=? Z.of_nat d) && (Z.of_nat d <=? Z.of_nat (List.length l))) with true.
  - cbn [skipn Z.to_nat]. f_equal. f_equal. lia.
  - symmetry. rewrite !andb_true_iff. repeat split; apply Z.leb_le; lia.
Qed.
Lemma tslice_from (l : tagitems) d : (d + 1 <= List.length l)%nat -> tslice l (Some (Z.of_nat d + 1)) None = TItems (skipn (S d) l).
Proof.
  intros H. unfold tslice.
  replace ((0 <=? Z.of_nat d + 1) && (Z.of_nat d + 1 <=? Z.of_nat (List.length l)) && (Z.of_nat (List.length l) <=? Z.of_nat (List.length l))) with true.
  - replace (Z.to_nat (Z.of_nat d + 1)) with (S d) by lia.
    replace (Z.to_nat (Z.of_nat (List.length l) - (Z.of_nat d + 1))) with (List.length (skipn (S d) l)) by (rewrite skipn_length; lia).
    rewrite firstn_all. reflexivity.
  - symmetry. rewrite !andb_true_iff. repeat split; apply Z.leb_le; lia.
Qed.
Lemma of_nat_ne_m1 n : (Z.of_nat n =? -1) = false.
Proof. apply Z.eqb_neq. lia. Qed.

Lemma nat_leb0 n : (0 <=? Z.of_nat n) = true.
Proof. apply Z.leb_le. lia. Qed.

Ltac ostep :=
  lazy beta iota zeta delta
    [run_override texec texec_list teval tset tempty fn_body fn_tagItems_override
     String.eqb Ascii.eqb Bool.eqb andb orb negb];
  cbn [Z.opp Z.eqb Z.leb Z.compare].

Definition InvIn (t its : tagitems) (i : nat) (e : tenv) : Prop :=
  e "t"%string = TItems t /\ e "inTags"%string = TItems its /\ e "i"%string = TZ (Z.of_nat i) /\ e "dup"%string = TZ (-1).

Theorem override_from_source t inTags : run_override fn_tagItems_override t inTags = Some (override t inTags).
Proof.
  unfold override. ostep.
  match goal with |- context[idx_loop ?n 0 ?ob ?e] =>
    assert (Hob : forall i ti e0 acc its, nth_error t i = Some ti ->
       e0 "t"%string = TItems t -> e0 "overridEd"%string = TItems acc -> e0 "inTags"%string = TItems its ->
       exists e1, ob (Z.of_nat i) e0 = TNext e1 /\ e1 "t"%string = TItems t /\
         e1 "overridEd"%string = TItems (match find_dup (fst ti) its with None => acc ++ [ti] | Some d => acc ++ [nth d its ti] end) /\
         e1 "inTags"%string = TItems (match find_dup (fst ti) its with None => its | Some d => remove_at d its end))
  end.
  { intros i ti e0 acc its Hn Ht Hacc Hits. ostep. rewrite Hits. ostep.
    match goal with |- context[idx_loop ?nn 0 ?ib ?e] =>
      set (E := e); set (IB := ib);
      assert (HEt : E "t"%string = TItems t) by exact Ht;
      assert (HEacc : E "overridEd"%string = TItems acc) by exact Hacc;
      assert (HEits : E "inTags"%string = TItems its) by exact Hits;
      assert (HEi : E "i"%string = TZ (Z.of_nat i)) by reflexivity;
      assert (HEd : E "dup"%string = TZ (-1)) by reflexivity;
      assert (Hib : forall j it e1, nth_error its j = Some it -> InvIn t its i e1 ->
                IB (Z.of_nat j) e1 = if str_eqb (fst ti) (fst it)
                                     then TBrk (tset "dup" (TZ (Z.of_nat j)) (tset "j" (TZ (Z.of_nat j)) e1))
                                     else TNext (tset "j" (TZ (Z.of_nat j)) e1))
        by (intros j it e1 Hj (A & B & C & D); unfold IB; ostep; rewrite A, B, C; ostep;
            rewrite !nat_leb0, !Nat2Z.id, Hn, Hj; ostep; destruct (str_eqb (fst ti) (fst it)); ostep; reflexivity);
      clearbody E IB
    end.
    assert (Hpres : forall e1 z, InvIn t its i e1 -> InvIn t its i (tset "j" (TZ z) e1))
      by (intros e1 z (A & B & C & D); repeat split; assumption).
    assert (Hd1 : forall e1, InvIn t its i e1 -> e1 "dup"%string = TZ (-1)) by (intros e1 (_ & _ & _ & D); exact D).
    assert (Hinv0 : InvIn t its i E) by (repeat split; assumption).
    destruct (inner_loop (fst ti) its IB (InvIn t its i) Hpres Hd1 Hib (List.length its) 0%nat E eq_refl Hinv0) as (e' & He' & Hd & Hag).
    change (Z.of_nat 0) with 0 in He'. rewrite He'. cbn [skipn Nat.add] in Hd.
    assert (A1 : e' "t"%string = TItems t) by (rewrite Hag by (split; reflexivity); exact HEt).
    assert (A2 : e' "overridEd"%string = TItems acc) by (rewrite Hag by (split; reflexivity); exact HEacc).
    assert (A3 : e' "inTags"%string = TItems its) by (rewrite Hag by (split; reflexivity); exact HEits).
    assert (A4 : e' "i"%string = TZ (Z.of_nat i)) by (rewrite Hag by (split; reflexivity); exact HEi).
    clear Hib Hinv0 He' Hpres Hd1 Hag.
    destruct (find_dup (fst ti) its) as [d|] eqn:Efd.
    - destruct (find_dup_nth _ _ _ Efd) as (it & Hnth & Hdef & Hlt).
      repeat (ostep; rewrite ?Hd, ?A1, ?A2, ?A3, ?A4, ?of_nat_ne_m1, ?nat_leb0, ?Nat2Z.id, ?Hnth, ?Hn, ?tslice_to, ?tslice_from by lia).
      eexists. split; [reflexivity|]. ostep. rewrite A1, (Hdef ti), remove_at_split. repeat split; reflexivity.
    - repeat (ostep; rewrite ?Hd, ?A1, ?A2, ?A3, ?A4, ?nat_leb0, ?Nat2Z.id, ?Hn).
      eexists. split; [reflexivity|]. ostep. rewrite A1, A3. repeat split; reflexivity. }
  match goal with |- context[idx_loop ?n 0 ?ob ?e] =>
    destruct (outer_loop t ob Hob n 0%nat e [] inTags eq_refl eq_refl eq_refl eq_refl)
      as (e' & acc' & its' & He' & Ha & Hi & Hov)
  end.
  change (Z.of_nat 0) with 0 in He'. rewrite He'. ostep. rewrite Ha, Hi. cbn [skipn] in Hov. rewrite Hov. reflexivity.
Qed.

Lemma override_never_panics t inTags : exists r, run_override fn_tagItems_override t inTags = Some r.
Proof. eexists. apply override_from_source. Qed.

(* ---------- tagItems.format ---------- *)
Definition fmt1 (it : tagitem) : str := fst it ++ 58%N :: snd it.

Lemma format_loop (t : tagitems) (fbody : Z -> tenv -> tflow) :
  (forall i it e0 acc, nth_error t i = Some it -> e0 "tags"%string = TStrs acc ->
     exists e1, fbody (Z.of_nat i) e0 = TNext e1 /\ e1 "tags"%string = TStrs (acc ++ [fmt1 it])) ->
  forall n start e acc, (start + n = List.length t)%nat -> e "tags"%string = TStrs acc ->
    exists e', idx_loop n (Z.of_nat start) fbody e = TNext e' /\ e' "tags"%string = TStrs (acc ++ map fmt1 (skipn start t)).
Proof.
  intros Hb. induction n as [|n IH]; intros start e acc Hlen Hacc; cbn [idx_loop].
  - exists e. rewrite skipn_all2 by lia. cbn [map]. rewrite app_nil_r. auto.
  - destruct (nth_error t start) as [it|] eqn:En; [|apply nth_error_None in En; lia].
    destruct (Hb start it e acc En Hacc) as (e1 & Hb1 & Ht1). rewrite Hb1.
    replace (Z.of_nat start + 1) with (Z.of_nat (S start)) by lia.
    destruct (IH (S start) e1 (acc ++ [fmt1 it]) ltac:(lia) Ht1) as (e' & He' & Ht').
    exists e'. split; [exact He'|]. rewrite Ht', (skipn_cons t start it En). cbn [map]. rewrite <- app_assoc. reflexivity.
Qed.

Ltac fostep :=
  lazy beta iota zeta delta
    [run_format texec texec_list teval tset tempty fn_body fn_tagItems_format
     String.eqb Ascii.eqb Bool.eqb andb orb negb];
  cbn [Z.opp Z.eqb Z.leb Z.compare str_eqb N.eqb Pos.eqb].

Theorem format_from_source t : run_format fn_tagItems_format t = Some (format t).
Proof.
  unfold format. fostep.
  match goal with |- context[idx_loop ?nn 0 ?fb ?e] =>
    assert (Hb : forall i it e0 acc, nth_error t i = Some it -> e0 "tags"%string = TStrs acc ->
               exists e1, fb (Z.of_nat i) e0 = TNext e1 /\ e1 "tags"%string = TStrs (acc ++ [fmt1 it]))
      by (intros i it e0 acc Hn Hacc; fostep; rewrite Nat2Z.id, Hn; fostep; rewrite Hacc; fostep;
          eexists; split; reflexivity);
    destruct (format_loop t fb Hb nn 0%nat e [] eq_refl eq_refl) as (e' & He' & Ht')
  end.
  change (Z.of_nat 0) with 0 in He'. rewrite He'. fostep. rewrite Ht'. cbn [skipn app]. unfold SPACE, COLON.
  reflexivity.
Qed.
