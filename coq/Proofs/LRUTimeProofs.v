(* The abstract LRU (layer 1) refines the timestamp specification (layer 2) of Spec/LRUSpec.v:
   keeping the entries most-recent-first and dropping the last one is the same as dropping the
   entry whose last store-or-load is the oldest. *)
From PGV Require Import Base.Bytes Spec.LRUSpec.
From Coq Require Import Permutation Sorted.

Notation E := (N * (N * nat))%type (only parsing).
Definition ekey (p : N * (V * nat)) : N := fst p.
Definition eval (p : E) : V := fst (snd p).
Definition etime (p : E) : nat := snd (snd p).
Definition strip (l : list E) : A := map (fun p => (ekey p, eval p)) l.
Definition newer (p q : E) : Prop := etime q < etime p.      (* p before q in the list *)

Record J (now : nat) (t : T) (a : A) (l : list E) : Prop := {
  j_strip : a = strip l;
  j_perm : Permutation l t;
  j_keys : NoDup (map ekey l);
  j_sorted : StronglySorted newer l;
  j_past : Forall (fun p => etime p < now) l
}.

(* ---- finds and filters under permutation ---- *)
Lemma find_key_unique (l : list E) k p : NoDup (map ekey l) -> In p l -> ekey p = k ->
  find (fun q => N.eqb (fst q) k) l = Some p.
Proof.
  induction l as [|q l IH]; cbn [find map In]; intros Hnd Hin Hk; [contradiction|]. subst k.
  inversion Hnd as [|? ? Hni Hnd']; subst.
  destruct Hin as [Heq|Hin].
  - subst q. unfold ekey. now rewrite N.eqb_refl.
  - match goal with |- context[if ?c then _ else _] => destruct c eqn:Heq end.
    + apply N.eqb_eq in Heq. exfalso. apply Hni. apply in_map_iff. exists p. split; [|assumption].
      symmetry. exact Heq.
    + now apply IH.
Qed.

Lemma find_perm (l t : list E) k : NoDup (map ekey l) -> Permutation l t ->
  find (fun q => N.eqb (fst q) k) t = find (fun q => N.eqb (fst q) k) l.
Proof.
  intros Hnd Hp.
  assert (Hnd' : NoDup (map ekey t)) by (eapply Permutation_NoDup; [apply Permutation_map; exact Hp|exact Hnd]).
  destruct (find (fun q => N.eqb (fst q) k) l) as [p|] eqn:El.
  - apply find_some in El as [Hin Hk]. apply N.eqb_eq in Hk.
    apply find_key_unique; [assumption|eapply Permutation_in; eassumption|exact Hk].
  - destruct (find (fun q => N.eqb (fst q) k) t) as [p|] eqn:Et; [|reflexivity].
    apply find_some in Et as [Hin Hk].
    eapply find_none in El; [|eapply Permutation_in; [apply Permutation_sym; exact Hp|exact Hin]].
    congruence.
Qed.

Lemma filter_perm {X} (f : X -> bool) l t : Permutation l t -> Permutation (filter f l) (filter f t).
Proof.
  induction 1 as [|x l t Hp IH|x y l|l t u H1 IH1 H2 IH2]; cbn.
  - constructor.
  - destruct (f x); [now constructor|assumption].
  - destruct (f x), (f y); try reflexivity. apply perm_swap.
  - eapply Permutation_trans; eassumption.
Qed.

Lemma strip_filter k l : a_del k (strip l) = strip (filter (fun p => negb (N.eqb (fst p) k)) l).
Proof.
  unfold a_del, strip, ekey. induction l as [|p l IH]; cbn; [reflexivity|].
  destruct (N.eqb (fst p) k); cbn; now rewrite IH.
Qed.

Lemma a_get_strip k l : a_get k (strip l) = option_map eval (find (fun q => N.eqb (fst q) k) l).
Proof.
  unfold a_get, strip, ekey. induction l as [|p l IH]; cbn; [reflexivity|].
  destruct (N.eqb (fst p) k); cbn; [reflexivity|exact IH].
Qed.

Lemma sorted_filter (f : E -> bool) l : StronglySorted newer l -> StronglySorted newer (filter f l).
Proof.
  induction 1 as [|p l Hs IH Hall]; cbn; [constructor|].
  destruct (f p); [|assumption]. constructor; [assumption|].
  rewrite Forall_forall in *. intros q Hq. apply filter_In in Hq as [Hq _]. now apply Hall.
Qed.

Lemma nodup_filter_keys (f : E -> bool) l : NoDup (map ekey l) -> NoDup (map ekey (filter f l)).
Proof.
  induction l as [|x l IH]; cbn; intros H; [constructor|]. inversion H as [|? ? Hni Hnd]; subst.
  destruct (f x); cbn; [constructor|]; auto.
  intros Hin. apply Hni. apply in_map_iff in Hin as (y & <- & Hy). apply filter_In in Hy as [Hy _]. now apply in_map.
Qed.

Lemma forall_filter {X} (P : X -> Prop) (f : X -> bool) l : Forall P l -> Forall P (filter f l).
Proof. rewrite !Forall_forall. intros H x Hx. apply filter_In in Hx as [Hx _]. auto. Qed.

Lemma key_not_in_filter k (l : list E) : ~ In k (map ekey (filter (fun p => negb (N.eqb (fst p) k)) l)).
Proof.
  rewrite in_map_iff. intros (p & Hk & Hin). apply filter_In in Hin as [_ Hf].
  unfold ekey in Hk. rewrite Hk, N.eqb_refl in Hf. discriminate.
Qed.

(* touching a key: move it to the front with the current time *)
Lemma J_touch now t a l k v : J now t a l ->
  J (S now) ((k, (v, now)) :: t_del k t) ((k, v) :: a_del k a)
    ((k, (v, now)) :: filter (fun p => negb (N.eqb (fst p) k)) l).
Proof.
  intros [Hs Hp Hk Hso Hpa]. constructor.
  - rewrite Hs, strip_filter. reflexivity.
  - constructor. unfold t_del. now apply filter_perm.
  - cbn [map]. constructor; [apply key_not_in_filter|now apply nodup_filter_keys].
  - constructor; [now apply sorted_filter|].
    apply forall_filter. eapply Forall_impl; [|exact Hpa]. intros p Hlt. exact Hlt.
  - constructor; [cbn; lia|]. apply forall_filter. eapply Forall_impl; [|exact Hpa].
    intros p Hlt; cbv beta in *; unfold etime in *; lia.
Qed.

Lemma J_time now t a l : J now t a l -> J (S now) t a l.
Proof.
  intros [Hs Hp Hk Hso Hpa]. constructor; try assumption.
  eapply Forall_impl; [|exact Hpa]. intros p Hlt; cbv beta in *; unfold etime in *; lia.
Qed.

(* ---- the oldest entry of a permutation of a strictly sorted list is the list's last ---- *)
Lemma t_oldest_spec t q : t_oldest t = Some q -> In q t /\ forall p, In p t -> etime q <= etime p.
Proof.
  revert q; induction t as [|p t IH]; intros q H; [discriminate|]. cbn [t_oldest] in H.
  destruct (t_oldest t) as [q0|] eqn:E.
  - destruct (IH q0 eq_refl) as [Hin Hmin].
    destruct (Nat.ltb_spec (snd (snd q0)) (snd (snd p))) as [Hlt|Hge]; inversion H; subst.
    + split; [now right|]. intros p' [<-|Hp']; [unfold etime; lia|now apply Hmin].
    + split; [now left|]. intros p' [<-|Hp']; [lia|]. specialize (Hmin p' Hp'). unfold etime in *. lia.
  - inversion H; subst. destruct t as [|p2 t2].
    + split; [now left|]. intros p' [<-|[]]. lia.
    + exfalso. cbn [t_oldest] in E. destruct (t_oldest t2); [destruct (Nat.ltb _ _)|]; discriminate.
Qed.

Lemma t_oldest_some t : t <> [] -> exists q, t_oldest t = Some q.
Proof.
  destruct t as [|p t]; [congruence|]. intros _. cbn [t_oldest].
  destruct (t_oldest t) as [q|]; [destruct (Nat.ltb (snd (snd q)) (snd (snd p)))|]; eauto.
Qed.

Lemma last_In {X} (x : X) l d : In (last (x :: l) d) (x :: l).
Proof. revert x. induction l as [|z l IH]; intros x; [now left|]. right. apply (IH z). Qed.

Lemma sorted_last_min l d : StronglySorted newer l -> l <> [] ->
  forall p, In p l -> p = last l d \/ etime (last l d) < etime p.
Proof.
  induction 1 as [|x l Hs IH Hall]; [congruence|]. intros _ p Hin.
  destruct l as [|y l'].
  - destruct Hin as [<-|[]]. now left.
  - change (last (x :: y :: l') d) with (last (y :: l') d).
    assert (Hlast : In (last (y :: l') d) (y :: l')) by apply last_In.
    destruct Hin as [<-|Hin].
    + right. rewrite Forall_forall in Hall. apply (Hall _ Hlast).
    + apply IH; [congruence|assumption].
Qed.

Lemma oldest_is_last l t d : Permutation l t -> StronglySorted newer l -> l <> [] ->
  t_oldest t = Some (last l d).
Proof.
  intros Hp Hs Hne.
  assert (Hte : t <> []) by (intros ->; apply Permutation_sym, Permutation_nil in Hp; congruence).
  destruct (t_oldest_some t Hte) as [q Hq]. rewrite Hq. f_equal.
  destruct (t_oldest_spec t q Hq) as [Hin Hmin].
  assert (Hinl : In q l) by (eapply Permutation_in; [apply Permutation_sym; exact Hp|exact Hin]).
  destruct (sorted_last_min l d Hs Hne q Hinl) as [->|Hlt]; [reflexivity|].
  exfalso.
  assert (Hl : In (last l d) t).
  { eapply Permutation_in; [exact Hp|]. destruct l as [|x l]; [congruence|]. apply last_In. }
  specialize (Hmin _ Hl). lia.
Qed.

Lemma filter_cons {X} (f : X -> bool) x l : filter f (x :: l) = if f x then x :: filter f l else filter f l.
Proof. reflexivity. Qed.

Lemma removelast_filter_last (l : list E) d : NoDup (map ekey l) -> l <> [] ->
  filter (fun p => negb (N.eqb (fst p) (fst (last l d)))) l = removelast l.
Proof.
  induction l as [|x l IH]; [congruence|]. intros Hnd _. inversion Hnd as [|? ? Hni Hnd']; subst.
  destruct l as [|y l'].
  - cbn. now rewrite N.eqb_refl.
  - change (last (x :: y :: l') d) with (last (y :: l') d).
    assert (Hlast : In (last (y :: l') d) (y :: l')) by apply last_In.
    rewrite filter_cons. destruct (N.eqb_spec (fst x) (fst (last (y :: l') d))) as [Heq|Hne].
    + exfalso. apply Hni. unfold ekey. rewrite Heq. now apply (in_map fst).
    + cbn [negb]. rewrite (IH Hnd' ltac:(congruence)). reflexivity.
Qed.

Lemma strip_removelast l : strip (removelast l) = removelast (strip l).
Proof.
  unfold strip. induction l as [|x l IH]; [reflexivity|]. destruct l as [|y l']; [reflexivity|].
  cbn [removelast map] in *. now rewrite IH.
Qed.

Lemma strip_last l d : l <> [] -> last (strip l) (ekey d, eval d) = (ekey (last l d), eval (last l d)).
Proof.
  unfold strip. induction l as [|x l IH]; [congruence|]. intros _. destruct l as [|y l']; [reflexivity|].
  change (last (map (fun p => (ekey p, eval p)) (x :: y :: l')) (ekey d, eval d))
    with (last (map (fun p => (ekey p, eval p)) (y :: l')) (ekey d, eval d)).
  rewrite IH by congruence. reflexivity.
Qed.

Lemma sorted_removelast l : StronglySorted newer l -> StronglySorted newer (removelast l).
Proof.
  induction 1 as [|x l Hs IH Hall]; [constructor|]. destruct l as [|y l']; [constructor|].
  cbn [removelast]. constructor; [exact IH|].
  rewrite Forall_forall in *. intros q Hq. apply Hall.
  clear -Hq. revert y Hq. induction l' as [|z l IH]; intros y Hq; [destruct Hq|].
  cbn [removelast] in Hq. destruct Hq as [<-|Hq]; [now left|right; now apply IH].
Qed.

(* ---- one step ---- *)
Theorem t_step_refines cap now t a l o : J now t a l ->
  let '(a', x, ev) := a_step cap a o in let '(t', x', ev') := t_step cap now t o in
  x = x' /\ ev = ev' /\ exists l', J (S now) t' a' l'.
Proof.
  intros HJ. pose proof HJ as [Hs Hp Hk Hso Hpa].
  destruct o as [k v|k|k|]; cbn [a_step t_step].
  - (* Store *)
    unfold a_store, t_store. rewrite Hs, a_get_strip. unfold t_get. rewrite (find_perm l t k Hk Hp).
    destruct (find (fun q => N.eqb (fst q) k) l) as [p|] eqn:Ef; cbn [option_map].
    + split; [reflexivity|]. split; [reflexivity|]. rewrite <- Hs. eexists. apply J_touch. exact HJ.
    + (* fresh key *)
      assert (Hnk : ~ In k (map ekey l)).
      { intros Hin. apply in_map_iff in Hin as (p & Hpk & Hin). eapply find_none in Ef; [|exact Hin].
        unfold ekey in Hpk. cbn in Ef. rewrite Hpk, N.eqb_refl in Ef. discriminate. }
      set (e := (k, (v, now)) : E). set (l1 := e :: l).
      assert (HJ1 : J (S now) (e :: t) ((k, v) :: strip l) l1).
      { constructor.
        - reflexivity.
        - now constructor.
        - cbn [map]. constructor; assumption.
        - constructor; [assumption|]. eapply Forall_impl; [|exact Hpa]. intros p Hlt. exact Hlt.
        - constructor; [cbn; lia|]. eapply Forall_impl; [|exact Hpa]. intros p Hlt; cbv beta in *; unfold etime in *; lia. }
      assert (Hlen : length (e :: t) = length ((k, v) :: strip l)).
      { cbn. f_equal. unfold strip. rewrite map_length. symmetry. now apply Permutation_length. }
      rewrite Hlen.
      destruct (cap <? Z.of_nat (length ((k, v) :: strip l)))%Z.
      * destruct HJ1 as [Hs1 Hp1 Hk1 Hso1 Hpa1].
        rewrite (oldest_is_last l1 (e :: t) e Hp1 Hso1 ltac:(unfold l1; congruence)).
        destruct (last l1 e) as [k' [v' tm']] eqn:El.
        split; [reflexivity|]. split.
        { f_equal. change ((k, v) :: strip l) with (strip l1).
          change (k, v) with (ekey e, eval e). rewrite strip_last by (unfold l1; congruence).
          now rewrite El. }
        exists (removelast l1). constructor.
        -- change ((k, v) :: strip l) with (strip l1). now rewrite strip_removelast.
        -- unfold t_del. rewrite <- (removelast_filter_last l1 e Hk1 ltac:(unfold l1; congruence)).
           rewrite El. cbn [fst]. now apply filter_perm.
        -- rewrite <- (removelast_filter_last l1 e Hk1 ltac:(unfold l1; congruence)). now apply nodup_filter_keys.
        -- now apply sorted_removelast.
        -- rewrite <- (removelast_filter_last l1 e Hk1 ltac:(unfold l1; congruence)). now apply forall_filter.
      * split; [reflexivity|]. split; [reflexivity|]. exists l1. exact HJ1.
  - (* Load *)
    unfold a_load, t_load. rewrite Hs, a_get_strip. unfold t_get. rewrite (find_perm l t k Hk Hp).
    destruct (find (fun q => N.eqb (fst q) k) l) as [[k' [v tm]]|] eqn:Ef; cbn [option_map eval fst snd].
    + split; [reflexivity|]. split; [reflexivity|]. rewrite <- Hs. eexists. apply J_touch. exact HJ.
    + split; [reflexivity|]. split; [reflexivity|]. exists l. rewrite <- Hs. now apply J_time.
  - (* Delete *)
    unfold a_delete, t_delete. rewrite Hs, a_get_strip. unfold t_get. rewrite (find_perm l t k Hk Hp).
    destruct (find (fun q => N.eqb (fst q) k) l) as [[k' [v tm]]|] eqn:Ef; cbn [option_map eval fst snd].
    + split; [reflexivity|]. split; [reflexivity|].
      exists (filter (fun p => negb (N.eqb (fst p) k)) l). constructor.
      * now rewrite strip_filter.
      * unfold t_del. now apply filter_perm.
      * now apply nodup_filter_keys.
      * now apply sorted_filter.
      * apply forall_filter. eapply Forall_impl; [|exact Hpa]. intros p Hlt; cbv beta in *; unfold etime in *; lia.
    + split; [reflexivity|]. split; [reflexivity|]. exists l. rewrite <- Hs. now apply J_time.
  - (* Len *)
    split.
    + f_equal. rewrite Hs. unfold strip. rewrite map_length. f_equal. now apply Permutation_length.
    + split; [reflexivity|]. exists l. now apply J_time.
Qed.

(* ---- every history: same outputs, same removal events, in the same order ---- *)
Theorem t_run_refines cap ops : forall now t a l, J now t a l ->
  let '(_, xs, evs) := a_run cap a ops in let '(_, xs', evs') := t_run cap now t ops in
  xs = xs' /\ evs = evs'.
Proof.
  induction ops as [|o ops IH]; intros now t a l HJ; cbn [a_run t_run]; [split; reflexivity|].
  pose proof (t_step_refines cap now t a l o HJ) as H.
  destruct (a_step cap a o) as [[a1 x] ev]. destruct (t_step cap now t o) as [[t1 x'] ev'].
  destruct H as (-> & -> & l1 & HJ1). specialize (IH (S now) t1 a1 l1 HJ1).
  destruct (a_run cap a1 ops) as [[a2 xs] evs]. destruct (t_run cap (S now) t1 ops) as [[t2 xs'] evs'].
  destruct IH as [-> ->]. split; reflexivity.
Qed.

Lemma J_init : J 0 [] [] [].
Proof. constructor; cbn; constructor. Qed.
