(* GoUniqueProofs.v — Unique (valid/validfn.go) from the source text: the parts of a string (split on ','), resp. the
   ToStr renderings of the elements of a slice or array, are put into a map used as a set; the rule holds when the set
   has as many keys as there were parts.  Both loops by induction; "as many keys as parts" is the model's
   length l = length (distinct l). *)
From Coq Require Import String.
From PGV Require Import Base.Bytes Base.GoStr Base.GoNum Base.Utf8 Base.MiniGo Regex.Re Regex.Rx.
From PGV Require Import Extracted.SourceConst Extracted.SourceRegex Extracted.SourceFnsInts.
From PGV Require Import Model.RuleText Model.Value Model.Clause Model.Rules Model.GoRule Proofs.GoFmtProofs.
Open Scope Z_scope.

(* ---- strings.Split on one byte is the structural split1 ---- *)
Lemma split_go_single c : forall (s cur : str) fuel, (List.length s < fuel)%nat -> split_go fuel [c] cur s = split1 c cur s.
Proof.
  induction s as [|x s IH]; intros cur fuel Hf; destruct fuel as [|f]; try (cbn in Hf; lia); cbn [split_go split1]; [reflexivity|].
  cbn [has_prefix List.length skipn]. destruct s as [|y s']; cbn [has_prefix];
    rewrite andb_true_r; destruct (N.eqb x c); try (rewrite IH by (cbn in *; lia)); reflexivity.
Qed.
Lemma split_single (s : str) c : split s [c] = split1 c [] s.
Proof. unfold split. apply split_go_single. lia. Qed.

(* ---- a map used as a set has as many keys as the list has distinct elements ---- *)
Definition str_eqb_iff := str_eqb_eq.
Lemma existsb_mem (x : str) l : existsb (str_eqb x) l = true <-> In x l.
Proof.
  rewrite existsb_exists. split.
  - intros (y & Hy & He). apply str_eqb_iff in He. subst. exact Hy.
  - intros H. exists x. split; [exact H|apply str_eqb_iff; reflexivity].
Qed.
Lemma NoDup_snoc {X} (l : list X) x : NoDup l -> ~ In x l -> NoDup (l ++ [x]).
Proof.
  induction l as [|a l IH]; intros Hn Hx; cbn [app]; [constructor; [intros []|constructor]|].
  inversion Hn; subst. constructor.
  - rewrite in_app_iff. intros [H|[<-|[]]]; [contradiction|]. apply Hx. left; reflexivity.
  - apply IH; [assumption|]. intros H. apply Hx. right; exact H.
Qed.
Lemma sadd_spec l x : NoDup l -> NoDup (sadd l x) /\ (forall y, In y (sadd l x) <-> In y l \/ y = x).
Proof.
  intros Hn. unfold sadd. destruct (existsb (str_eqb x) l) eqn:E.
  - apply existsb_mem in E. split; [exact Hn|]. intros y. split; [auto|intros [H| ->]; assumption].
  - split.
    + apply NoDup_snoc; [exact Hn|]. intros H. apply existsb_mem in H. congruence.
    + intros y. rewrite in_app_iff. cbn. split; intros [H|H]; auto; [destruct H as [<-|[]]; auto].
Qed.

Lemma sadd_all_spec l : forall acc, NoDup acc ->
  NoDup (fold_left sadd l acc) /\ (forall y, In y (fold_left sadd l acc) <-> In y acc \/ In y l).
Proof.
  induction l as [|x l IH]; intros acc Hn; cbn [fold_left].
  - split; [exact Hn|]. intros y. cbn. tauto.
  - destruct (sadd_spec acc x Hn) as (Hn1 & Hin1). destruct (IH (sadd acc x) Hn1) as (Hn2 & Hin2).
    split; [exact Hn2|]. intros y. rewrite Hin2, Hin1. cbn. split; [intros [[H|H]|H]|intros [H|[H|H]]]; auto.
Qed.
Lemma distinct_spec l : NoDup (distinct l) /\ (forall y, In y (distinct l) <-> In y l).
Proof.
  induction l as [|x l (Hn & Hin)]; cbn [distinct]; [split; [constructor|tauto]|].
  destruct (existsb (str_eqb x) l) eqn:E.
  - split; [exact Hn|]. intros y. rewrite Hin. cbn. split; [auto|intros [<-|H]; [apply existsb_mem; exact E|exact H]].
  - split.
    + constructor; [|exact Hn]. rewrite Hin. intros H. apply existsb_mem in H. congruence.
    + intros y. cbn. rewrite Hin. tauto.
Qed.
Lemma set_size l : List.length (fold_left sadd l []) = List.length (distinct l).
Proof.
  destruct (sadd_all_spec l [] (NoDup_nil _)) as (N1 & I1). destruct (distinct_spec l) as (N2 & I2).
  apply Nat.le_antisymm; apply NoDup_incl_length; try assumption; intros y Hy.
  - apply I2. apply I1 in Hy. destruct Hy as [[]|H]; exact H.
  - apply I1. right. apply I2. exact Hy.
Qed.

Definition ustep (acc v : str) : str := if str_eqb acc [91%N] then acc ++ v else acc ++ [44%N] ++ v.
Definition uniq_echo (strs : list str) : str := fold_left ustep strs [91%N] ++ [93%N].

Definition not_uloop (x : string) : Prop :=
  String.eqb x "uniqueMap" = false /\ String.eqb x "v" = false /\ String.eqb x "_" = false.

Lemma uniq_str_loop (body : Z -> str -> renv -> rflow) :
  (forall idx c e0 acc, e0 "uniqueMap"%string = RSet acc ->
     body idx c e0 = RNext (rset "uniqueMap" (RSet (sadd acc c)) (rset "v" (RS c) (rset "_" (RZ idx) e0)))) ->
  forall parts idx e acc, e "uniqueMap"%string = RSet acc ->
  exists e', range_brk parts idx body e = RNext e' /\ e' "uniqueMap"%string = RSet (fold_left sadd parts acc) /\
             (forall x, not_uloop x -> e' x = e x).
Proof.
  intros Hb. induction parts as [|c r IH]; intros idx e acc Hm; cbn [range_brk fold_left].
  - exists e. auto.
  - rewrite (Hb idx c e acc Hm).
    destruct (IH (idx + 1) (rset "uniqueMap" (RSet (sadd acc c)) (rset "v" (RS c) (rset "_" (RZ idx) e))) (sadd acc c) eq_refl)
      as (e' & He' & Hm' & Hag).
    exists e'. split; [exact He'|]. split; [exact Hm'|].
    intros x Hx. rewrite (Hag x Hx). destruct Hx as (H1 & H2 & H3). unfold rset. rewrite H1, H2, H3. reflexivity.
Qed.

Definition not_usl (x : string) : Prop :=
  String.eqb x "uniqueMap" = false /\ String.eqb x "val" = false /\ String.eqb x "i" = false /\ String.eqb x "inVal" = false.

Lemma uniq_slice_loop (vs : list val) (body : renv -> rflow) (Inv : renv -> Prop) :
  (forall k xv e0 m acc, nth_error vs k = Some xv -> Inv e0 ->
     e0 "i"%string = RZ (Z.of_nat k) -> e0 "uniqueMap"%string = RSet m -> e0 "inVal"%string = RS acc ->
     exists e1, body e0 = RNext e1 /\ Inv e1 /\ e1 "uniqueMap"%string = RSet (sadd m (to_str xv)) /\
                e1 "inVal"%string = RS (ustep acc (to_str xv)) /\ (forall x, not_usl x -> e1 x = e0 x)) ->
  (forall e0 z, Inv e0 -> Inv (rset "i" (RZ z) e0)) ->
  forall n k e m acc, (k + n = List.length vs)%nat -> Inv e -> e "uniqueMap"%string = RSet m -> e "inVal"%string = RS acc ->
  exists e', counted_loop n (Z.of_nat k) "i" body e = RNext e' /\
             e' "uniqueMap"%string = RSet (fold_left sadd (map to_str (skipn k vs)) m) /\
             e' "inVal"%string = RS (fold_left ustep (map to_str (skipn k vs)) acc) /\
             (forall x, not_usl x -> e' x = e x).
Proof.
  intros Hb Hi. induction n as [|n IH]; intros k e m acc Hlen Hinv Hm Hval; cbn [counted_loop].
  - eexists. split; [reflexivity|]. rewrite skipn_all2 by lia. cbn [map fold_left].
    repeat split; try (unfold rset; cbn; assumption).
    intros x (H1 & H2 & H3 & H4). unfold rset. rewrite H3. reflexivity.
  - destruct (nth_error vs k) as [xv|] eqn:En; [|apply nth_error_None in En; lia].
    destruct (Hb k xv (rset "i" (RZ (Z.of_nat k)) e) m acc En (Hi _ _ Hinv) eq_refl Hm Hval) as (e1 & Hb1 & Hinv1 & Hm1 & Hval1 & Hag1).
    rewrite Hb1. replace (Z.of_nat k + 1) with (Z.of_nat (S k)) by lia.
    destruct (IH (S k) e1 _ _ ltac:(lia) Hinv1 Hm1 Hval1) as (e' & He' & Hm' & Hval' & Hag').
    exists e'. split; [exact He'|].
    assert (Hsk : skipn k vs = xv :: skipn (S k) vs).
    { clear - En. revert k En. induction vs as [|a vs IHv]; intros [|k] En; cbn in *; try discriminate.
      - inversion En; reflexivity.
      - apply IHv. exact En. }
    rewrite Hsk. cbn [map fold_left]. split; [exact Hm'|]. split; [exact Hval'|].
    intros x Hx. rewrite (Hag' x Hx), (Hag1 x Hx). destruct Hx as (H1 & H2 & H3 & H4). unfold rset. rewrite H3. reflexivity.
Qed.

Lemma nat_leb0 n : (0 <=? Z.of_nat n) = true.
Proof. apply Z.leb_le. lia. Qed.
Lemma of_nat_eqb a b : (Z.of_nat a =? Z.of_nat b) = Nat.eqb a b.
Proof. destruct (Nat.eqb_spec a b); [apply Z.eqb_eq|apply Z.eqb_neq]; lia. Qed.

Section Unique.
  Variable orc : oracles.
  Variable U : val -> str.
  Variable FE : str -> str -> ftext -> str.
  Variable ST : str -> str.

  Definition W_UNIQ := s2b "they're not unique".

  Definition unique_text (vn obj field : str) (v : val) : str :=
    match v with
    | VStr s =>
      let ps := split1 COMMA [] s in
      if Nat.eqb (List.length ps) (List.length (distinct ps)) then [] else msg_text W_UNIQ vn obj field s
    | VSlice _ _ _ _ | VArray _ _ _ =>
      let strs := map to_str (elems_of v) in
      if Nat.eqb (List.length strs) (List.length (distinct strs)) then [] else msg_text W_UNIQ vn obj field (uniq_echo strs)
    | _ => FE obj field (FRuleErr (s2b "unique"))
    end.

  Ltac ustep' :=
    lazy beta iota zeta delta
      [run_rule rexec rexec_list reval rcall bind strs rset rempty fn_body check_str_err rkind kind_is
       fn_Unique assigns assigns_any existsb
       width_name String.append String.eqb Ascii.eqb Bool.eqb andb orb negb fst snd];
    cbn [str_eqb value_string Z.leb Z.compare].

  Theorem unique_from_source vn obj field v : run_rule orc U FE ST fn_Unique vn obj field v = Some (unique_text vn obj field v).
  Proof.
    unfold unique_text, COMMA, W_UNIQ. ustep'.
    destruct v as [| | [] | [] | [] | | | | | | | | | |]; ustep'; try reflexivity.
    (* a string *)
    1: { rewrite split_single.
         match goal with |- context[range_brk ?parts ?i ?body ?e] =>
           assert (Hbody : forall idx c e0 acc, e0 "uniqueMap"%string = RSet acc ->
                     body idx c e0 = RNext (rset "uniqueMap" (RSet (sadd acc c)) (rset "v" (RS c) (rset "_" (RZ idx) e0))))
             by (intros idx c e0 acc Hm; ustep'; rewrite Hm; ustep'; reflexivity);
           destruct (uniq_str_loop body Hbody parts i e [] eq_refl) as (e' & He' & Hm' & Hag);
           rewrite He'; clear He' Hbody
         end.
         repeat (ustep'; rewrite ?Hm', ?Hag by (repeat split; reflexivity)).
         rewrite of_nat_eqb, set_size.
         destruct (Nat.eqb _ _); repeat (ustep'; rewrite ?Hm', ?Hag by (repeat split; reflexivity)); try reflexivity.
         unfold msg_text; destruct (pk_msg vn) as [|c0 m0];
           repeat (ustep'; rewrite ?Hm', ?Hag by (repeat split; reflexivity)); reflexivity. }
    (* a slice or an array *)
    all: rewrite ?nat_leb0; ustep'; rewrite ?Nat2Z.id.
    all: match goal with |- context[counted_loop ?n 0 "i"%string ?body ?e] =>
           match goal with |- context[VSlice ?a ?b ?c ?l] => set (V := VSlice a b c l) in *; set (VS := l) in * | |- context[VArray ?a ?b ?l] => set (V := VArray a b l) in *; set (VS := l) in * end;
           set (BODY := body);
           assert (Hbody : forall k xv e0 m acc, nth_error VS k = Some xv -> (e0 "tv"%string = RVal V /\ e0 "ToStr"%string = RBad) ->
                     e0 "i"%string = RZ (Z.of_nat k) -> e0 "uniqueMap"%string = RSet m -> e0 "inVal"%string = RS acc ->
                     exists e1, BODY e0 = RNext e1 /\ (e1 "tv"%string = RVal V /\ e1 "ToStr"%string = RBad) /\
                                e1 "uniqueMap"%string = RSet (sadd m (to_str xv)) /\
                                e1 "inVal"%string = RS (ustep acc (to_str xv)) /\ (forall x, not_usl x -> e1 x = e0 x))
         end.
    1, 3: (intros k xv e0 m acc Hn (Htv & Hts) Hi Hm Hval; unfold BODY, ustep;
      repeat (ustep'; rewrite ?Htv, ?Hts, ?Hi, ?Hm, ?Hval, ?nat_leb0, ?Nat2Z.id; subst V; cbn [elems_of]; fold VS; rewrite ?Hn);
      destruct (str_eqb acc [91%N]) eqn:Eacc;
      repeat (ustep'; rewrite ?Htv, ?Hts, ?Hi, ?Hm, ?Hval, ?Eacc);
      (eexists; split; [reflexivity|]);
      (split; [split; lazy beta iota zeta delta [rset String.eqb Ascii.eqb Bool.eqb]; assumption|]);
      (split; [lazy beta iota zeta delta [rset String.eqb Ascii.eqb Bool.eqb]; reflexivity|]);
      (split; [lazy beta iota zeta delta [rset String.eqb Ascii.eqb Bool.eqb]; reflexivity|]);
      intros x (H1 & H2 & H3 & H4);
      lazy beta iota zeta delta [rset String.eqb Ascii.eqb Bool.eqb] in H1, H2, H3, H4 |- *;
      rewrite ?H1, ?H2, ?H3, ?H4; reflexivity).
    all: match goal with |- context[counted_loop ?n 0 "i"%string ?bd ?e] =>
           set (E := e);
           assert (Hpres : forall e0 z, (e0 "tv"%string = RVal V /\ e0 "ToStr"%string = RBad) ->
                     (rset "i" (RZ z) e0 "tv"%string = RVal V /\ rset "i" (RZ z) e0 "ToStr"%string = RBad))
             by (intros e0 z (A & B); split; assumption);
           assert (HinvE : E "tv"%string = RVal V /\ E "ToStr"%string = RBad) by (split; reflexivity);
           destruct (uniq_slice_loop VS bd (fun e0 => e0 "tv"%string = RVal V /\ e0 "ToStr"%string = RBad) Hbody Hpres
                       n 0%nat E [] [91%N] eq_refl HinvE eq_refl eq_refl) as (e' & He' & Hm' & Hval' & Hag')
         end.
    all: change (Z.of_nat 0) with 0 in He'; rewrite He'; clear He' Hbody; cbn [skipn] in Hm', Hval';
         assert (A0 : e' "l"%string = E "l"%string) by (apply Hag'; repeat split; reflexivity);
         assert (A1 : e' "cusMsg"%string = E "cusMsg"%string) by (apply Hag'; repeat split; reflexivity);
         assert (A2 : e' "objName"%string = E "objName"%string) by (apply Hag'; repeat split; reflexivity);
         assert (A3 : e' "fieldName"%string = E "fieldName"%string) by (apply Hag'; repeat split; reflexivity);
         assert (A4 : e' "errBuf"%string = E "errBuf"%string) by (apply Hag'; repeat split; reflexivity);
         assert (A5 : e' "ExplainEn"%string = E "ExplainEn"%string) by (apply Hag'; repeat split; reflexivity);
         assert (A6 : e' "GetJoinValidErrStr"%string = E "GetJoinValidErrStr"%string) by (apply Hag'; repeat split; reflexivity);
         assert (A7 : e' "validName"%string = E "validName"%string) by (apply Hag'; repeat split; reflexivity);
         assert (A8 : e' "ParseValidNameKV"%string = E "ParseValidNameKV"%string) by (apply Hag'; repeat split; reflexivity);
         assert (A9 : e' "len"%string = E "len"%string) by (apply Hag'; repeat split; reflexivity);
         unfold E in A0, A1, A2, A3, A4, A5, A6, A7, A8, A9;
         lazy beta iota zeta delta [String.eqb Ascii.eqb Bool.eqb] in A0, A1, A2, A3, A4, A5, A6, A7, A8, A9;
         clear Hag' Hpres HinvE; clearbody E BODY.
    all: subst V; cbn [elems_of] in Hm', Hval' |- *; fold VS in Hm', Hval' |- *;
         repeat (ustep'; rewrite ?Hm', ?Hval', ?A0, ?A1, ?A2, ?A3, ?A4, ?A5, ?A6, ?A7, ?A8, ?A9).
    all: rewrite ?of_nat_eqb, ?set_size, ?map_length.
    all: clear BODY E; cbn [elems_of]; fold VS; rewrite ?map_length.
    all: destruct (Nat.eqb (List.length VS) (List.length (distinct (map to_str VS))));
         repeat (ustep'; rewrite ?Hm', ?Hval', ?A0, ?A1, ?A2, ?A3, ?A4, ?A5, ?A6, ?A7, ?A8, ?A9); try reflexivity.
    all: unfold msg_text, uniq_echo; destruct (pk_msg vn) as [|c0 m0];
         repeat (ustep'; rewrite ?Hm', ?Hval', ?A0, ?A1, ?A2, ?A3, ?A4, ?A5, ?A6, ?A7, ?A8, ?A9); try reflexivity.
  Qed.

  Hypothesis FE_nonempty : forall o f t, FE o f t <> [].

  Theorem unique_decides vn obj field v : unique_text vn obj field v = [] <-> rUnique vn obj field v = [].
  Proof.
    unfold unique_text, rUnique.
    destruct v; cbn [elems_of];
      try (split; intros H; try reflexivity; try discriminate H; exfalso; revert H; apply FE_nonempty).
    all: match goal with |- context[Nat.eqb ?a ?b] => destruct (Nat.eqb a b) end;
         split; intros H; try reflexivity; try discriminate H; exfalso; revert H; apply msg_nonempty.
  Qed.
End Unique.

Theorem unique_rule_from_source (orc : oracles) (U : val -> str) (FE : str -> str -> ftext -> str) (ST : str -> str) vn obj field v :
  run_rule orc U FE ST fn_Unique vn obj field v = Some (unique_text FE vn obj field v).
Proof. apply unique_from_source. Qed.

Theorem unique_rule_writes_iff_clause (orc : oracles) (U : val -> str) (FE : str -> str -> ftext -> str) (ST : str -> str) :
  (forall o f t, FE o f t <> []) -> forall vn obj field v,
  run_rule orc U FE ST fn_Unique vn obj field v = Some [] <-> rUnique vn obj field v = [].
Proof.
  intros Hne vn obj field v. rewrite unique_from_source.
  split; [intros H; inversion H as [H1]; apply (unique_decides FE Hne); exact H1 | intros H; f_equal; apply (unique_decides FE Hne); exact H].
Qed.
