(* Under the extracted lock discipline every concurrent execution of the snapshot/commit machine
   of Model/ConcLRU.v is a sequential execution in commit order (C10). *)
From PGV Require Import Base.Bytes Spec.LRUSpec Model.LRU Model.Conc Model.ConcLRU.

Definition all_locked (ms : list msum) : bool := forallb holds ms.
Definition writers_exclusive (ms : list msum) : bool := forallb (fun m => implb (writer m) (is_w m)) ms.

(* a race-free summary makes every writing method take the write lock *)
Lemma race_free_writers ms : race_freeb ms = true -> writers_exclusive ms = true.
Proof.
  unfold race_freeb, writers_exclusive. rewrite !forallb_forall. intros H m Hin.
  specialize (H m Hin). rewrite forallb_forall in H. specialize (H m Hin).
  unfold writer. destruct (m_writes m) as [|f fs] eqn:Ew; [reflexivity|]. cbn [implb].
  assert (Hc : conflict m m = true).
  { unfold conflict, touches. rewrite Ew. cbn [existsb]. unfold memb. rewrite existsb_app. cbn [existsb].
    rewrite N.eqb_refl. cbn. now rewrite !orb_true_r. }
  rewrite Hc in H. cbn [implb] in H. unfold excl in H. rewrite orb_diag in H.
  apply andb_prop in H as [H _]. exact H.
Qed.

Lemma cres_refl x : cres_eqb x x = true.
Proof.
  destruct x as [[| [v|] | n] | vs]; try reflexivity.
  - apply N.eqb_refl.
  - apply Z.eqb_refl.
  - apply (list_eqb_eq N.eqb N.eqb_eq). reflexivity.
Qed.

Lemma replay_snoc h : forall s s1 o t,
  replay s h = (s1, true) ->
  replay s (h ++ [{| e_thread := t; e_op := o; e_res := snd (cstep s1 o) |}]) = (fst (cstep s1 o), true).
Proof.
  induction h as [|e h IH]; intros s s1 o t H; cbn [app replay].
  - inversion H; subst. cbn [e_op e_res]. destruct (cstep s1 o) as [s2 r]. cbn [fst snd].
    now rewrite cres_refl.
  - cbn [replay] in H. destruct (cstep s (e_op e)) as [s' x].
    destruct (replay s' h) as [s2 ok] eqn:Er.
    inversion H; subst. apply andb_prop in H2 as [Hx Hok]. subst ok.
    rewrite (IH s' s1 o t Er). now rewrite Hx.
Qed.

Section Lin.
  Variable ms : list msum.
  Variable cap : Z.
  Hypothesis Hlocked : all_locked ms = true.
  Hypothesis Hwx : writers_exclusive ms = true.
  (* the translator's classification is right for methods it reports as writing nothing *)
  Hypothesis Hro : forall m o, In m ms -> m_name m = method_name o -> writer m = false ->
                   forall s, fst (cstep s o) = s.

  Record CInv (c : ccfg) : Prop := {
    ci_in : forall t m o, (c_th c t = CWait m o \/ exists s, c_th c t = CInside m o s) ->
            In m ms /\ m_name m = method_name o;
    ci_excl : forall t u m m' o o' s s', t <> u -> c_th c t = CInside m o s -> c_th c u = CInside m' o' s' ->
              is_w m = true -> holds m' = false;
    ci_snap : forall t m o s, c_th c t = CInside m o s -> s = c_shared c;
    ci_hist : replay (init cap) (c_hist c) = (c_shared c, true)
  }.

  Lemma cupd_same th t x : cupd th t x t = x.
  Proof. unfold cupd. now rewrite Nat.eqb_refl. Qed.
  Lemma cupd_other th t x u : u <> t -> cupd th t x u = th u.
  Proof. unfold cupd. intros H. destruct (Nat.eqb_spec u t); [contradiction|reflexivity]. Qed.

  Lemma holds_of m : In m ms -> holds m = true.
  Proof. intros H. unfold all_locked in Hlocked. rewrite forallb_forall in Hlocked. now apply Hlocked. Qed.
  Lemma writer_is_w m : In m ms -> writer m = true -> is_w m = true.
  Proof.
    intros H Hw. unfold writers_exclusive in Hwx. rewrite forallb_forall in Hwx.
    specialize (Hwx m H). rewrite Hw in Hwx. exact Hwx.
  Qed.

  Lemma creach_inv c : creach ms cap c -> CInv c.
  Proof.
    induction 1 as [|c c' Hr IH Hs].
    - constructor; cbn; try (intros; discriminate); try reflexivity.
      intros t m o [H|[s H]]; discriminate.
    - destruct IH as [Iin Iex Isn Ihi].
      destruct Hs as [c t m o Hidle Hin Hname|c t m o Hw Hce|c t m o snap Hi].
      + (* call *)
        constructor; cbn [c_th c_shared c_hist].
        * intros u m' o' H. destruct (Nat.eq_dec u t) as [->|Hne].
          -- rewrite cupd_same in H. destruct H as [H|[s H]]; [|discriminate]. inversion H; subst. auto.
          -- rewrite cupd_other in H by assumption. now apply (Iin u).
        * intros u1 u2 m1 m2 o1 o2 s1 s2 Hne H1 H2 Hw.
          destruct (Nat.eq_dec u1 t) as [->|N1]; [rewrite cupd_same in H1; discriminate|].
          destruct (Nat.eq_dec u2 t) as [->|N2]; [rewrite cupd_same in H2; discriminate|].
          rewrite cupd_other in H1, H2 by assumption. eapply (Iex u1 u2); eassumption.
        * intros u m' o' s H. destruct (Nat.eq_dec u t) as [->|Hne]; [rewrite cupd_same in H; discriminate|].
          rewrite cupd_other in H by assumption. eapply Isn; eassumption.
        * exact Ihi.
      + (* enter: snapshot *)
        constructor; cbn [c_th c_shared c_hist].
        * intros u m' o' H. destruct (Nat.eq_dec u t) as [->|Hne].
          -- rewrite cupd_same in H. destruct H as [H|[s H]]; [discriminate|]. inversion H; subst.
             apply (Iin t). now left.
          -- rewrite cupd_other in H by assumption. now apply (Iin u).
        * intros u1 u2 m1 m2 o1 o2 s1 s2 Hne H1 H2 Hw1.
          destruct (Nat.eq_dec u1 t) as [->|N1]; destruct (Nat.eq_dec u2 t) as [->|N2]; try contradiction.
          -- rewrite cupd_same in H1. inversion H1; subst. rewrite cupd_other in H2 by assumption.
             unfold ccan_enter in Hce. unfold is_w in Hw1. destruct (m_lock m1); try discriminate.
             eapply Hce; eassumption.
          -- rewrite cupd_same in H2. inversion H2; subst. rewrite cupd_other in H1 by assumption.
             unfold ccan_enter in Hce. unfold holds. destruct (m_lock m2) eqn:E; [reflexivity| |].
             ++ specialize (Hce u1 m1 o1 s1 N1 H1). congruence.
             ++ specialize (Hce u1 m1 o1 s1 N1 H1). unfold is_w, holds in *. destruct (m_lock m1); discriminate.
          -- rewrite cupd_other in H1, H2 by assumption. eapply (Iex u1 u2); eassumption.
        * intros u m' o' s H. destruct (Nat.eq_dec u t) as [->|Hne].
          -- rewrite cupd_same in H. now inversion H.
          -- rewrite cupd_other in H by assumption. eapply Isn; eassumption.
        * exact Ihi.
      + (* exit: commit *)
        destruct (Iin t m o (or_intror (ex_intro _ snap Hi))) as [Hin Hname].
        pose proof (Isn t m o snap Hi) as Hsnap. subst snap.
        constructor; cbn [c_th c_shared c_hist].
        * intros u m' o' H. destruct (Nat.eq_dec u t) as [->|Hne].
          -- rewrite cupd_same in H. destruct H as [H|[s H]]; discriminate.
          -- rewrite cupd_other in H by assumption. now apply (Iin u).
        * intros u1 u2 m1 m2 o1 o2 s1 s2 Hne H1 H2 Hw.
          destruct (Nat.eq_dec u1 t) as [->|N1]; [rewrite cupd_same in H1; discriminate|].
          destruct (Nat.eq_dec u2 t) as [->|N2]; [rewrite cupd_same in H2; discriminate|].
          rewrite cupd_other in H1, H2 by assumption. eapply (Iex u1 u2); eassumption.
        * intros u m' o' s H. destruct (Nat.eq_dec u t) as [->|Hne]; [rewrite cupd_same in H; discriminate|].
          rewrite cupd_other in H by assumption.
          destruct (writer m) eqn:Ew.
          -- (* a writer was inside: nobody else holding a lock is *)
             exfalso. pose proof (Iex t u m m' o o' (c_shared c) s (not_eq_sym Hne) Hi H (writer_is_w m Hin Ew)) as Hh.
             destruct (Iin u m' o' (or_intror (ex_intro _ s H))) as [Hin' _].
             rewrite (holds_of m' Hin') in Hh. discriminate.
          -- eapply Isn; eassumption.
        * destruct (writer m) eqn:Ew.
          -- apply replay_snoc. exact Ihi.
          -- rewrite <- (Hro m o Hin Hname Ew (c_shared c)) at 2. apply replay_snoc. exact Ihi.
  Qed.

  (* every reachable configuration: the calls completed so far, in commit order, form a legal
     sequential history of the LRU ending in the current shared state *)
  Theorem commit_order_linearizes c : creach ms cap c ->
    replay (init cap) (c_hist c) = (c_shared c, true).
  Proof. intros H. apply (ci_hist c (creach_inv c H)). Qed.

  (* no two lock-holding bodies with a writer among them are ever inside together *)
  Theorem writers_alone c : creach ms cap c ->
    forall t u m m' o o' s s', t <> u -> c_th c t = CInside m o s -> c_th c u = CInside m' o' s' ->
    writer m = false.
  Proof.
    intros H t u m m' o o' s s' Hne H1 H2. destruct (creach_inv c H) as [Iin Iex _ _].
    destruct (writer m) eqn:Ew; [exfalso|reflexivity].
    destruct (Iin t m o (or_intror (ex_intro _ s H1))) as [Hin _].
    destruct (Iin u m' o' (or_intror (ex_intro _ s' H2))) as [Hin' _].
    pose proof (Iex t u m m' o o' s s' Hne H1 H2 (writer_is_w m Hin Ew)) as Hh.
    rewrite (holds_of m' Hin') in Hh. discriminate.
  Qed.
End Lin.

(* the shared state of the machine is always a sequentially reachable LRU state *)
Fixpoint ops_of (h : list event) : list op :=
  match h with
  | [] => []
  | e :: r => match e_op e with COp o => o :: ops_of r | CDump => ops_of r end
  end.

Lemma replay_run h : forall s s' ok, replay s h = (s', ok) -> s' = fst (run s (ops_of h)).
Proof.
  induction h as [|e h IH]; intros s s' ok H; cbn [replay ops_of run] in *.
  - now inversion H.
  - destruct (e_op e) as [o|]; cbn [cstep] in H.
    + cbn [run]. destruct (LRU.step s o) as [s1 x]. destruct (replay s1 h) as [s2 ok2] eqn:Er.
      inversion H; subst. specialize (IH s1 s' ok2 Er). destruct (run s1 (ops_of h)). exact IH.
    + destruct (replay s h) as [s2 ok2] eqn:Er. inversion H; subst. eapply IH; eassumption.
Qed.
