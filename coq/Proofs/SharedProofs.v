(* C08 / C11 / C12: the struct-type cache is transparent, pooled objects come back clean, and
   both hold of every interleaving of the atomic shared actions. *)
From PGV Require Import Base.Bytes Base.GoStr.
From PGV Require Import Model.RuleText Model.Value Model.Clause Model.Rules Model.Walk Model.Shared.

(* ---------- the walker uses a struct type only through its analysis ---------- *)
Lemma on_fields_analysis c rec sn cus fs b :
  on_fields c rec sn cus fs b =
  on_fields_a c rec sn cus (analyse (c_tag c) (map fst fs)) (map snd fs) b.
Proof.
  revert b; induction fs as [|[fi fv] fs IH]; intros b; [reflexivity|].
  cbn [on_fields map analyse on_fields_a fst snd].
  destruct (f_time fi) eqn:Et; cbn [orb negb a_export a_name a_rules].
  - cbn [bind]. apply IH.
  - destruct (is_exported (f_name fi)); cbn [negb orb].
    + destruct (match rm_get cus (f_name fi) with [] => tag_get (f_tags fi) (c_tag c) | _ :: _ => rm_get cus (f_name fi) end).
      * cbn [bind]. apply IH.
      * match goal with |- (b1 <- ?x ;; _) = _ => destruct x as [b1| |] end; cbn [bind]; [apply IH|reflexivity|reflexivity].
    + cbn [bind]. apply IH.
Qed.

(* ---------- any lossy cache is transparent ---------- *)
Section Transparent.
  Variable types : str -> list finfo.      (* the field list of the struct type with this Type.String() *)
  Definition entry_ok (k : ckey) (v : list ainfo) : Prop := v = analyse (snd k) (types (fst k)).

  Variable C : cache_impl.
  Variable R : cst C -> Prop.               (* every value the cache can hand out is the stored analysis *)
  Hypothesis R_init : R (c_init C).
  Hypothesis R_load : forall s k s' r, R s -> c_load C s k = (s', r) ->
                      R s' /\ match r with Some v => entry_ok k v | None => True end.
  Hypothesis R_store : forall s k v, R s -> entry_ok k v -> R (c_store C s k v).

  Lemma get_cached_ok s k : R s ->
    snd (get_cached C s k (types (fst k))) = analyse (snd k) (types (fst k)) /\
    R (fst (get_cached C s k (types (fst k)))).
  Proof.
    intros HR. unfold get_cached. destruct (c_load C s k) as [s1 [a|]] eqn:El;
      destruct (R_load s k s1 _ HR El) as [HR1 Hv]; cbn [fst snd].
    - split; [exact Hv|exact HR1].
    - split; [reflexivity|]. apply R_store; [exact HR1|reflexivity].
  Qed.

  (* any history of lookups, in any order, over any keys: every lookup returns the fresh analysis *)
  Fixpoint lookups (s : cst C) (ks : list ckey) : cst C * list (list ainfo) :=
    match ks with
    | [] => (s, [])
    | k :: r => let '(s1, a) := get_cached C s k (types (fst k)) in
                let '(s2, l) := lookups s1 r in (s2, a :: l)
    end.

  Theorem history_transparent ks : forall s, R s ->
    snd (lookups s ks) = map (fun k => analyse (snd k) (types (fst k))) ks /\ R (fst (lookups s ks)).
  Proof.
    induction ks as [|k ks IH]; intros s HR; cbn [lookups map]; [split; [reflexivity|exact HR]|].
    destruct (get_cached_ok s k HR) as [Ha HR1].
    destruct (get_cached C s k (types (fst k))) as [s1 a]. cbn [fst snd] in *.
    destruct (IH s1 HR1) as [Hl HR2]. destruct (lookups s1 ks) as [s2 l]. cbn [fst snd] in *.
    split; [now rewrite Ha, Hl|exact HR2].
  Qed.

  (* the validation of a struct of that type, with whatever the cache returns, is the cache-free one *)
  Theorem struct_walk_transparent s c rec sn cus tstr vals b : R s ->
    length vals = length (types tstr) ->
    on_fields_a c rec sn cus (snd (get_cached C s (tstr, c_tag c) (types tstr))) vals b =
    on_fields c rec sn cus (combine (types tstr) vals) b.
  Proof.
    intros HR Hlen. destruct (get_cached_ok s (tstr, c_tag c) HR) as [Ha _]. cbn [fst snd] in Ha.
    rewrite Ha, on_fields_analysis. f_equal.
    - f_equal. clear -Hlen. revert vals Hlen. induction (types tstr) as [|x l IH]; intros [|v vals] H; cbn in *; try reflexivity; try discriminate.
      f_equal. apply IH. now inversion H.
    - clear -Hlen. revert vals Hlen. induction (types tstr) as [|x l IH]; intros [|v vals] H; cbn in *; try reflexivity; try discriminate.
      f_equal. apply IH. now inversion H.
  Qed.
End Transparent.

(* ---------- the implementations the property names are lossy caches ---------- *)
Definition all_ok (types : str -> list finfo) (s : assoc) : Prop :=
  Forall (fun p => entry_ok types (fst p) (snd p)) s.

Lemma ckey_eqb_eq a b : ckey_eqb a b = true -> a = b.
Proof.
  unfold ckey_eqb. intros H. apply andb_prop in H as [H1 H2]. apply str_eqb_eq in H1, H2.
  destruct a, b; cbn in *; congruence.
Qed.

Lemma assoc_get_ok types s k v : all_ok types s -> assoc_get s k = Some v -> entry_ok types k v.
Proof.
  induction s as [|[k' v'] s IH]; cbn; intros H E; [discriminate|]. inversion H as [|? ? Hk Hs]; subst.
  destruct (ckey_eqb k k') eqn:Ek.
  - inversion E; subst. apply ckey_eqb_eq in Ek. subst. exact Hk.
  - now apply IH.
Qed.

Lemma all_ok_filter types f s : all_ok types s -> all_ok types (filter f s).
Proof. unfold all_ok. rewrite !Forall_forall. intros H x Hx. apply filter_In in Hx as [Hx _]. auto. Qed.

Lemma all_ok_removelast types s : all_ok types s -> all_ok types (removelast s).
Proof.
  unfold all_ok. induction s as [|x s IH]; intros H; [constructor|]. inversion H; subst.
  destruct s; [constructor|]. cbn [removelast]. constructor; [assumption|]. now apply IH.
Qed.

Theorem always_miss_lossy types s k s' r : True -> c_load always_miss s k = (s', r) ->
  True /\ match r with Some v => entry_ok types k v | None => True end.
Proof. intros _ H. inversion H; subst. auto. Qed.

Theorem map_lossy types s k s' r : all_ok types s -> c_load unbounded_map s k = (s', r) ->
  all_ok types s' /\ match r with Some v => entry_ok types k v | None => True end.
Proof.
  cbn. intros H E. inversion E; subst. split; [exact H|]. destruct (assoc_get s' k) eqn:Eg; [|exact I].
  eapply assoc_get_ok; eassumption.
Qed.
Theorem map_store_ok types s k v : all_ok types s -> entry_ok types k v -> all_ok types (c_store unbounded_map s k v).
Proof. intros H Hv. constructor; assumption. Qed.

Theorem lru_lossy cap types s k s' r : all_ok types s -> c_load (lru_cache cap) s k = (s', r) ->
  all_ok types s' /\ match r with Some v => entry_ok types k v | None => True end.
Proof.
  cbn. unfold lru_load. intros H E. destruct (assoc_get s k) eqn:Eg; inversion E; subst.
  - pose proof (assoc_get_ok types s k l H Eg) as Hv. split; [|exact Hv].
    constructor; [exact Hv|now apply all_ok_filter].
  - split; [exact H|exact I].
Qed.
Theorem lru_store_ok cap types s k v : all_ok types s -> entry_ok types k v -> all_ok types (c_store (lru_cache cap) s k v).
Proof.
  cbn. unfold lru_store. intros H Hv. destruct (assoc_get s k).
  - constructor; [exact Hv|now apply all_ok_filter].
  - destruct (Nat.ltb cap (length ((k, v) :: s))).
    + apply all_ok_removelast. constructor; assumption.
    + constructor; assumption.
Qed.

(* capacity bound of that LRU (capacity 0 included) *)
Lemma lru_bounded cap s k v : (length s <= cap)%nat -> (length (lru_store cap s k v) <= cap)%nat.
Proof.
  unfold lru_store. intros H. destruct (assoc_get s k) eqn:Eg.
  - assert (Hf : (S (length (filter (fun p => negb (ckey_eqb k (fst p))) s)) <= length s)%nat).
    { clear H. induction s as [|[k' v'] s IH]; [discriminate|]. cbn in *. destruct (ckey_eqb k k'); cbn.
      - apply le_n_S. clear. induction s as [|x s IH]; cbn; [lia|]. destruct (negb _); cbn; lia.
      - apply IH in Eg. lia. }
    cbn [length]. lia.
  - destruct (Nat.ltb_spec cap (length ((k, v) :: s))).
    + assert (length (removelast ((k, v) :: s)) = length s); [|lia].
      clear. generalize (k, v). induction s as [|x s IH]; intros p; [reflexivity|]. cbn [removelast length] in *.
      destruct s; [reflexivity|]. cbn [length]. f_equal. apply (IH x).
    + assumption.
Qed.

(* ---------- pooled objects ---------- *)
Lemma new_vstruct_fresh pool tag : Forall (fun o => clean o = true) pool ->
  stale_rules (snd (new_vstruct pool tag)) = false /\ Forall (fun o => clean o = true) (fst (new_vstruct pool tag)).
Proof.
  intros H. destruct pool as [|o rest]; cbn; [split; [reflexivity|constructor]|].
  inversion H as [|? ? Ho Hr]; subst. unfold clean in Ho. apply andb_prop in Ho as [Ho _]. apply andb_prop in Ho as [Ho _].
  split; [now destruct (o_rules_set o)|exact Hr].
Qed.

Lemma free_vstruct_clean pool o : Forall (fun o => clean o = true) pool -> Forall (fun o => clean o = true) (free_vstruct pool o).
Proof. intros H. constructor; [reflexivity|exact H]. Qed.

(* ---------- every interleaving of the shared actions ---------- *)
(* one atomic action of some goroutine on the shared state (pool, cache entries) *)
Inductive act :=
| AGet (tag : str)                         (* syncValidStructPool.Get inside NewVStruct *)
| APut (o : vobj)                          (* free(): the object is cleaned, then Put *)
| ALoad (k : ckey)
| AStore (k : ckey) (v : list ainfo)       (* only ever called with the analysis just computed *)
| AForget (keep : ckey -> bool).           (* the cache may drop entries at any time (eviction, capacity 0) *)

Record shared := { sh_pool : list vobj; sh_cache : assoc }.

Definition allowed (types : str -> list finfo) (a : act) : Prop :=
  match a with AStore k v => entry_ok types k v | _ => True end.

Definition sh_step (s : shared) (a : act) : shared :=
  match a with
  | AGet tag => {| sh_pool := fst (new_vstruct (sh_pool s) tag); sh_cache := sh_cache s |}
  | APut o => {| sh_pool := free_vstruct (sh_pool s) o; sh_cache := sh_cache s |}
  | ALoad _ => s
  | AStore k v => {| sh_pool := sh_pool s; sh_cache := (k, v) :: sh_cache s |}
  | AForget keep => {| sh_pool := sh_pool s; sh_cache := filter (fun p => keep (fst p)) (sh_cache s) |}
  end.

Definition sh_inv (types : str -> list finfo) (s : shared) : Prop :=
  Forall (fun o => clean o = true) (sh_pool s) /\ all_ok types (sh_cache s).

Theorem interleaving_inv types (acts : list act) : forall s, sh_inv types s -> Forall (allowed types) acts ->
  sh_inv types (fold_left sh_step acts s).
Proof.
  induction acts as [|a acts IH]; intros s [Hp Hc] Hall; cbn [fold_left]; [split; assumption|].
  inversion Hall as [|? ? Ha Hrest]; subst. apply IH; [|exact Hrest].
  destruct a; cbn [sh_step sh_pool sh_cache]; split; try assumption.
  - apply (new_vstruct_fresh _ tag Hp).
  - now apply free_vstruct_clean.
  - constructor; [exact Ha|exact Hc].
  - now apply all_ok_filter.
Qed.

(* what any goroutine reads from the shared state, after any interleaving of allowed actions by any
   number of goroutines: a non-stale object and, from the cache, nothing or the right analysis —
   exactly what it reads when it runs alone *)
Theorem reads_as_alone types acts tag k : Forall (allowed types) acts ->
  let s := fold_left sh_step acts {| sh_pool := []; sh_cache := [] |} in
  stale_rules (snd (new_vstruct (sh_pool s) tag)) = false /\
  match assoc_get (sh_cache s) k with Some v => entry_ok types k v | None => True end.
Proof.
  intros Hall s.
  assert (Hi : sh_inv types s) by (apply interleaving_inv; [split; constructor|exact Hall]).
  destruct Hi as [Hp Hc]. split; [apply (new_vstruct_fresh _ tag Hp)|].
  destruct (assoc_get (sh_cache s) k) eqn:E; [|exact I]. eapply assoc_get_ok; eassumption.
Qed.
