(* GoMsgProofs.v — the body of GetJoinValidErrStr (valid/common.go), the function that words every rule violation,
   extracted from /repo computes the model's join_valid_err for every object name, field name, echoed input and
   every list of further texts; the clause texts of Model/Clause.v are its one-argument instances. *)
From Coq Require Import String.
From PGV Require Import Base.Bytes Base.GoStr Base.Utf8 Base.MiniGo Extracted.SourceConst Extracted.SourceFnsMsg.
From PGV Require Import Model.RuleText Model.Clause Model.GoParse Proofs.C15Final Proofs.GoRangeProofs.
Open Scope Z_scope.

Definition sp (c : str) : str := c ++ [32%N].
Fixpoint pieces (l : list str) : str :=
  match l with
  | [] => []
  | [x] => x ++ ErrEndFlag
  | x :: r => x ++ 32%N :: pieces r
  end.

Lemma pieces_join l : l <> [] -> pieces l = join [32%N] l ++ ErrEndFlag.
Proof.
  induction l as [|x [|y r] IH]; intros H; [congruence|reflexivity|].
  change (pieces (x :: y :: r)) with (x ++ 32%N :: pieces (y :: r)).
  change (join [32%N] (x :: y :: r)) with (x ++ [32%N] ++ join [32%N] (y :: r)).
  rewrite IH by congruence. rewrite <- !app_assoc. reflexivity.
Qed.

Lemma pieces_last l c : nth_error l (List.length l - 1) = Some c ->
  pieces l = concat (map sp (firstn (List.length l - 1) l)) ++ c ++ ErrEndFlag.
Proof.
  induction l as [|x [|y r] IH]; intros H; [discriminate| cbn in H; inversion H; reflexivity|].
  change (pieces (x :: y :: r)) with (x ++ 32%N :: pieces (y :: r)).
  cbn [List.length] in *. replace (S (S (List.length r)) - 1)%nat with (S (List.length r)) in * by lia.
  cbn [nth_error] in H. replace (S (List.length r) - 1)%nat with (List.length r) in IH by lia.
  rewrite (IH H). cbn [firstn map concat]. unfold sp at 2. rewrite <- !app_assoc. reflexivity.
Qed.


Definition W (l : list str) (k : nat) : str :=
  if Nat.ltb k (List.length l) then concat (map sp (firstn k l)) else pieces l.

Lemma W_lt l j c : nth_error l j = Some c -> (S j < List.length l)%nat -> W l (S j) = W l j ++ c ++ [32%N].
Proof.
  intros Hn Hl. unfold W.
  destruct (Nat.ltb_spec (S j) (List.length l)); [|lia]. destruct (Nat.ltb_spec j (List.length l)); [|lia].
  rewrite (firstn_snoc l j c Hn), map_app, concat_app. cbn [map concat]. unfold sp at 3. now rewrite app_nil_r.
Qed.
Lemma W_last l j c : nth_error l j = Some c -> S j = List.length l -> W l (S j) = W l j ++ c ++ ErrEndFlag.
Proof.
  intros Hn Hl. unfold W.
  destruct (Nat.ltb_spec (S j) (List.length l)); [lia|]. destruct (Nat.ltb_spec j (List.length l)); [|lia].
  replace j with (List.length l - 1)%nat in * by lia. apply pieces_last. exact Hn.
Qed.

Definition Pinv (B : str) (l : list str) (k : nat) (e : penv) : Prop :=
  e "res"%string = PS (B ++ W l k) /\ e "lastIndex"%string = PZ (Z.of_nat (List.length l) - 1) /\
  e "ErrEndFlag"%string = PS ErrEndFlag.

Ltac mstep :=
  lazy beta iota zeta delta
    [run_join pexec pexec_list peval pset pempty fn_body fn_GetJoinValidErrStr
     String.eqb Ascii.eqb Bool.eqb andb orb negb];
  cbn [List.length Z.leb Z.ltb Z.compare Pos.compare Pos.compare_cont Z.to_nat nth_error str_eqb N.eqb Pos.eqb];
  change (Z.of_nat 0) with 0; cbn [Z.eqb].

Lemma len_ne0 n : (Z.of_nat (S n) =? 0) = false.
Proof. apply Z.eqb_neq. lia. Qed.

Lemma s2b_input : s2b "input """ = [105; 110; 112; 117; 116; 32; 34]%N.
Proof. reflexivity. Qed.
Lemma s2b_comma : s2b ", " = [44; 32]%N.
Proof. reflexivity. Qed.

Theorem join_from_source obj field echo others :
  run_join fn_GetJoinValidErrStr obj field echo others = Some (join_valid_err obj field echo others).
Proof.
  destruct others as [|o0 rest].
  - destruct obj as [|a obj]; destruct field as [|f field]; mstep; unfold join_valid_err, quoted_prefix, valid_path, nonempty; cbn [andb negb app]; rewrite ?s2b_input, ?s2b_comma; unfold DQ, DOT; repeat (progress (cbn [app]; rewrite <- ?app_assoc)); reflexivity.
  - destruct obj as [|a obj]; destruct field as [|f field]; mstep; rewrite len_ne0; mstep.
    all: destruct (contains o0 ExplainEn) eqn:Een; destruct (contains o0 ExplainZh) eqn:Ezh; mstep.
    all: match goal with |- context[range_loop ?l 0 ?b ?e] =>
           let v := eval lazy beta iota zeta delta [String.eqb Ascii.eqb Bool.eqb] in (e "res"%string) in
           match v with PS ?B =>
             destruct (range_inv b (Pinv B l) l 0%nat e) as (e' & He' & HP')
           end end.
    all: try (unfold Pinv, W; cbn [Nat.ltb Nat.leb List.length firstn map concat]; rewrite app_nil_r;
              split; [|split]; lazy beta iota zeta delta [String.eqb Ascii.eqb Bool.eqb]; reflexivity).
    all: try solve [ intros j c e0 Hn (Hres & Hlast & Hend); cbn [Nat.add] in *;
              assert (Hj : (j < List.length (o0 :: rest))%nat) by (apply nth_error_Some; congruence);
              repeat (mstep; rewrite ?Hres, ?Hlast, ?Hend);
              cbn [List.length] in Hj;
              match goal with |- context[if ?a <? ?b then _ else _] => destruct (Z.ltb_spec a b) as [Hlt|Hge] end;
              repeat (mstep; rewrite ?Hres, ?Hlast, ?Hend);
              (eexists; (split; [first [left; reflexivity | right; reflexivity]|]));
              ((split; [|split]); lazy beta iota zeta delta [String.eqb Ascii.eqb Bool.eqb]; try assumption);
              [> rewrite (W_lt _ j c Hn) by (cbn [List.length]; lia) | rewrite (W_last _ j c Hn) by (cbn [List.length]; lia)];
              rewrite <- !app_assoc; reflexivity ].
    all: change (Z.of_nat 0) with 0 in He'; rewrite He'; destruct HP' as (Hres' & _ & _); mstep; rewrite Hres'; mstep.
    all: unfold W; cbn [Nat.add]; rewrite Nat.ltb_irrefl, pieces_join by discriminate.
    all: unfold join_valid_err, quoted_prefix, valid_path, nonempty, has_label; rewrite Een, Ezh.
    all: cbn [andb orb negb app]; rewrite ?s2b_input, ?s2b_comma; unfold DQ, DOT;
         repeat (progress (cbn [app]; rewrite <- ?app_assoc)); try reflexivity.
Qed.

(* the clause texts of Model/Clause.v are the one-argument calls: what every rule function writes for a custom message
   or an unlabelled text is the source's GetJoinValidErrStr(obj, field, echo, msg) without its trailing separator *)
Lemma clause_text_custom obj field echo msg t :
  clause_text (CValid obj field echo (VCustom msg)) = Some t ->
  run_join fn_GetJoinValidErrStr obj field echo [msg] = Some (t ++ ErrEndFlag).
Proof.
  intros H. rewrite join_from_source. unfold clause_text in H. injection H as <-. unfold join_valid_err.
  cbn [join]. destruct (has_label _); rewrite ?s2b_input, ?s2b_comma; unfold ExplainEn;
  repeat (progress (cbn [app]; rewrite <- ?app_assoc)); reflexivity.
Qed.
Lemma clause_text_text obj field echo txt t :
  clause_text (CValid obj field echo (VText txt)) = Some t ->
  run_join fn_GetJoinValidErrStr obj field echo [txt] = Some (t ++ ErrEndFlag).
Proof.
  intros H. rewrite join_from_source. unfold clause_text in H. injection H as <-. unfold join_valid_err.
  cbn [join]. destruct (has_label _); rewrite ?s2b_input, ?s2b_comma; unfold ExplainEn;
  repeat (progress (cbn [app]; rewrite <- ?app_assoc)); reflexivity.
Qed.
Lemma join_never_panics obj field echo others : exists r, run_join fn_GetJoinValidErrStr obj field echo others = Some r.
Proof. eexists. apply join_from_source. Qed.

(* a custom message m, labelled by the parser (label m), through the source's formatter: verbatim, no second label *)
Lemma custom_from_source obj field echo m :
  run_join fn_GetJoinValidErrStr obj field echo [label m] =
  Some (quoted_prefix (valid_path obj field) ++ s2b "input """ ++ echo ++ [DQ] ++ s2b ", " ++ label m ++ ErrEndFlag).
Proof.
  rewrite (clause_text_custom obj field echo (label m) _ (custom_clause_text obj field echo m)).
  rewrite <- !app_assoc. reflexivity.
Qed.

(* ---------- GetJoinFieldErr (valid/common.go): the clause of a rule that cannot be read ---------- *)
Definition field_err_text (obj field : str) (err : pv) : str :=
  quoted_prefix (field_path obj field) ++ (match err with PS t | PE t => t | _ => [] end) ++ ErrEndFlag.

Ltac estep :=
  lazy beta iota zeta delta
    [run_field_err pexec pexec_list peval pset pempty fn_body fn_GetJoinFieldErr
     String.eqb Ascii.eqb Bool.eqb andb orb negb existsb];
  cbn [str_eqb].

Theorem field_err_from_source obj field :
  (forall t, run_field_err fn_GetJoinFieldErr obj field (PS t) = Some (field_err_text obj field (PS t))) /\
  (forall t, run_field_err fn_GetJoinFieldErr obj field (PE t) = Some (field_err_text obj field (PE t))) /\
  run_field_err fn_GetJoinFieldErr obj field PO = Some (field_err_text obj field PO).
Proof.
  unfold field_err_text, quoted_prefix, field_path, nonempty.
  repeat split; intros; destruct obj as [|a obj]; destruct field as [|f field]; estep;
    cbn [andb app]; unfold DQ, DOT; repeat (progress (cbn [app]; rewrite <- ?app_assoc)); reflexivity.
Qed.

(* the clause of a known field error (Model/Clause.v) is this text without the trailing separator *)
Lemma clause_text_field obj field t :
  clause_text (CField obj field (FKnown t)) = Some (quoted_prefix (field_path obj field) ++ t) /\
  run_field_err fn_GetJoinFieldErr obj field (PS t) = Some ((quoted_prefix (field_path obj field) ++ t) ++ ErrEndFlag).
Proof.
  split; [reflexivity|]. rewrite (proj1 (field_err_from_source obj field) t).
  unfold field_err_text. rewrite <- app_assoc. reflexivity.
Qed.
Lemma field_err_nonempty obj field err : field_err_text obj field err <> [].
Proof.
  unfold field_err_text. intros H. apply app_eq_nil in H. destruct H as [_ H]. apply app_eq_nil in H. destruct H as [_ H].
  discriminate H.
Qed.
