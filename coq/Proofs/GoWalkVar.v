(* GoWalkVar.v — VVar.validate (valid/validvar.go) from the source text is the model's var_rules. *)
From Coq Require Import String.
From PGV Require Import Base.Bytes Base.GoStr Base.GoNum Base.Utf8 Base.Url Base.MiniGo.
From PGV Require Import Extracted.SourceConst Extracted.SourceTable Extracted.SourceFnsWalk.
From PGV Require Import Model.RuleText Model.Value Model.Clause Model.Rules Model.Walk Model.GoWalk Proofs.GoWalkProofs.
Open Scope Z_scope.

Section Walk.
  Variable c : cfg.
  Variable rules : rm.

  (* ---------- VVar.validate ---------- *)

  Theorem var_validate_from_source tv b :
    run_var_validate c rules fn_VVar_validate tv b =
    Some (match rm_get rules validVarFieldName with
          | [] => Ok (put b [CField [] [] (FKnown (s2b "have no set rule"))])
          | vns => var_rules c tv (names_split COMMA vns) b
          end).
  Proof.
    wstep. destruct (rm_get rules validVarFieldName) as [|r0 rr]; [change (str_eqb [] []) with true; wstep; same|].
    rewrite var_rules_fold.
    change (str_eqb (r0 :: rr) []) with false. wstep.
    match goal with |- context[gen_loop ?iter ?l ?e ?b0] => set (IT := iter); set (EN := e) end.
    assert (H : forall (i : unit) x b0, norm_iter (IT x ((fun _ : unit => EN) i) b0) = lift ((fun _ : unit => EN) ((fun i _ => i) i x)) (var_rule c tv x b0)).
    { intros _ x b0. unfold var_rule. subst IT EN. cbv beta.
      destruct x as [|x0 xr]; [wstep; change (str_eqb [] []) with true; wstep; same|].
      cbv iota. assert (Hne : str_eqb (x0 :: xr) [] = false) by reflexivity.
      revert Hne. generalize (x0 :: xr). clear x0 xr. intros vn Hne.
      wstep. rewrite Hne. wstep.
      destruct (get_fn c (pk_key vn)) as [| |f|t]; wstep.
      - same.
      - (* the nil function: required, or a name this walker does not support *)
        destruct (str_eqb (pk_key vn) Required); wstep; [|same].
        destruct tv as [ |bb|w z|w z|i32 f r r64|s|t|p|nl ek et vs|ek et vs|nl kk t es|si fs|inner|tz|t]; wstep.
        all: try (destruct vs as [|v0 vs']; wstep).
        all: try change (is_zero (VSlice nl ek et [])) with (Ok nl : res bool);
             try change (is_zero (VArray ek et [])) with (Ok true : res bool); wstep.
        all: try (match goal with |- context[is_zero ?v] => destruct (is_zero v) as [[|]| |] end; wstep).
        all: try (destruct (pk_msg vn) as [|m0 mr];
                  [try change (str_eqb [] []) with true | try change (str_eqb (m0 :: mr) []) with false]; wstep).
        all: try same.
        all: match goal with |- ?g => idtac g end.
        all: fail.
      - destruct (is_zero tv) as [[|]| |]; wstep; same.
      - destruct (is_zero tv) as [[|]| |]; wstep; same. }
    rewrite (gen_loop_fold (fun _ : unit => EN) (fun i _ => i) (var_rule c tv) IT H _ tt).
    destruct (fold_res (var_rule c tv) (names_split COMMA (r0 :: rr)) b); subst EN; wstep; same.
  Qed.
End Walk.
