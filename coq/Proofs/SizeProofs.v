(* C01: the size rules' verdict is exactly "the measure lies outside the stated set". *)
From PGV Require Import Base.Bytes Base.GoStr Base.GoNum Base.Utf8.
From PGV Require Import Model.RuleText Model.Value Model.Clause Model.Rules Spec.SizeSpec.
Open Scope Z_scope.

(* the verdict the rule functions compute once their bounds are parsed *)
Definition core_verdict (r : srule) (lo hi : Z) (v : val) : bool :=
  match r with
  | RTo => let '(lt, gt, _) := valid_input_size lo hi v true in lt || gt
  | ROTo => let '(lt, gt, _) := valid_input_size lo hi v false in lt || gt
  | RGe => let '(lt, _, _) := valid_input_size lo 0 v true in lt
  | RGt => let '(lt, _, _) := valid_input_size lo 0 v false in lt
  | RLe => let '(_, gt, _) := valid_input_size 0 hi v true in gt
  | RLt => let '(_, gt, _) := valid_input_size 0 hi v false in gt
  | REq => negb (eq_holds lo v)
  | RNoEq => eq_holds lo v
  end.

Lemma cmp_lt a b : match a ?= b with Lt => true | _ => false end = (a <? b).
Proof. unfold Z.ltb. destruct (a ?= b); reflexivity. Qed.
Lemma cmp_gt a b : match a ?= b with Gt => true | _ => false end = (b <? a).
Proof. rewrite Z.compare_antisym. unfold Z.ltb. destruct (b ?= a); reflexivity. Qed.
Lemma cmp_le a b : match a ?= b with Gt => false | _ => true end = (a <=? b).
Proof. unfold Z.leb. destruct (a ?= b); reflexivity. Qed.
Lemma cmp_eq a b : match a ?= b with Eq => true | _ => false end = (a =? b).
Proof. destruct (Z.compare_spec a b) as [->| |]; [now rewrite Z.eqb_refl| |]; symmetry; apply Z.eqb_neq; lia. Qed.

Ltac zb := repeat match goal with
  | |- context[?a <? ?b] => destruct (Z.ltb_spec a b)
  | |- context[?a <=? ?b] => destruct (Z.leb_spec a b)
  | |- context[?a =? ?b] => destruct (Z.eqb_spec a b)
  end; cbn; try reflexivity; try lia.

(* integer measures: strings (rune count), signed integers, slices *)
Lemma core_int r lo hi z (v : val) :
  (forall mn mx he, valid_input_size mn mx v he =
     (if he then (z <? mn, mx <? z, snd (valid_input_size mn mx v he))
      else (z <=? mn, mx <=? z, snd (valid_input_size mn mx v he)))) ->
  eq_holds lo v = (z =? lo) ->
  core_verdict r lo hi v = negb (in_set r lo hi (MInt z)).
Proof.
  intros Hv He. unfold core_verdict, in_set, m_lt, m_le, m_eq, mcmp.
  destruct r; rewrite ?Hv, ?He; cbn [fst snd];
    rewrite ?cmp_lt, ?cmp_le, ?cmp_eq; zb.
Qed.

Lemma vis_str s mn mx he :
  valid_input_size mn mx (VStr s) he =
  (if he then (Z.of_nat (rune_count s) <? mn, mx <? Z.of_nat (rune_count s), snd (valid_input_size mn mx (VStr s) he))
   else (Z.of_nat (rune_count s) <=? mn, mx <=? Z.of_nat (rune_count s), snd (valid_input_size mn mx (VStr s) he))).
Proof. destruct he; reflexivity. Qed.
Lemma vis_int w z mn mx he :
  valid_input_size mn mx (VInt w z) he =
  (if he then (z <? mn, mx <? z, snd (valid_input_size mn mx (VInt w z) he))
   else (z <=? mn, mx <=? z, snd (valid_input_size mn mx (VInt w z) he))).
Proof. destruct he; reflexivity. Qed.
Lemma vis_slice b k t vs mn mx he :
  valid_input_size mn mx (VSlice b k t vs) he =
  (if he then (Z.of_nat (length vs) <? mn, mx <? Z.of_nat (length vs), snd (valid_input_size mn mx (VSlice b k t vs) he))
   else (Z.of_nat (length vs) <=? mn, mx <=? Z.of_nat (length vs), snd (valid_input_size mn mx (VSlice b k t vs) he))).
Proof. destruct he; reflexivity. Qed.

(* unsigned: the guard for negative bounds agrees with the integers because n > 0 *)
Lemma core_uint r lo hi w n : 0 < n ->
  core_verdict r lo hi (VUint w n) = negb (in_set r lo hi (MInt n)).
Proof.
  intros Hn. unfold core_verdict, valid_input_size, eq_holds, in_set, m_lt, m_le, m_eq, mcmp.
  destruct r; rewrite ?cmp_lt, ?cmp_le, ?cmp_eq; zb.
Qed.

(* floats: the model's comparison is the spec's comparison *)
Lemma core_float r lo hi is32 m e s1 s2 :
  core_verdict r lo hi (VFloat is32 (FFin m e) s1 s2) = negb (in_set r lo hi (MDyadic m e)).
Proof.
  unfold core_verdict, valid_input_size, eq_holds, in_set, m_lt, m_le, m_eq, mcmp, fl_cmp_z,
    c_lt, c_gt, c_le, c_ge, c_eq.
  destruct r; destruct (0 <=? e);
    repeat match goal with |- context[?a ?= ?b] => destruct (Z.compare_spec a b) end;
    cbn; try reflexivity; try lia.
Qed.

Theorem core_verdict_exact r lo hi v x :
  sizeable v = true -> measure v = Some x ->
  core_verdict r lo hi v = negb (in_set r lo hi x).
Proof.
  intros Hs Hm. destruct v; try discriminate.
  - (* int *) inversion Hm; subst. apply core_int; [intros; apply vis_int|reflexivity].
  - (* uint *) inversion Hm; subst. apply core_uint. cbn in Hs. now apply Z.ltb_lt.
  - (* float *) destruct f; try discriminate. inversion Hm; subst. apply core_float.
  - (* string *) inversion Hm; subst. apply core_int; [intros; apply vis_str|reflexivity].
  - (* slice *) inversion Hm; subst. apply core_int; [intros; apply vis_slice|reflexivity].
Qed.

(* ---- the rule functions compute the core verdict from their parsed bounds ---- *)
Definition violated (cs : list clause) : bool := match cs with [] => false | _ => true end.

Lemma to_like_core he vn obj field v lo hi :
  parse_tag_to (pk_val vn) (s2b "to") = inl (lo, hi) ->
  violated (to_like he vn obj field v) = core_verdict (if he then RTo else ROTo) lo hi v /\
  (length (to_like he vn obj field v) <= 1)%nat.
Proof.
  intros Hp. unfold to_like. rewrite Hp. unfold core_verdict.
  destruct he; destruct (valid_input_size lo hi v _) as [[lt gt] vs];
    destruct (lt || gt); cbn; auto.
Qed.

Lemma one_sided_core lower he rule vn obj field v :
  violated (one_sided lower he rule vn obj field v) =
    core_verdict (if lower then (if he then RGe else RGt) else (if he then RLe else RLt))
                 (fst (atoi (pk_val vn))) (fst (atoi (pk_val vn))) v /\
  (length (one_sided lower he rule vn obj field v) <= 1)%nat.
Proof.
  unfold one_sided, core_verdict.
  destruct lower, he; destruct (valid_input_size _ _ v _) as [[lt gt] vs];
    try destruct lt; try destruct gt; cbn; auto.
Qed.

Lemma eq_like_core want vn obj field v :
  violated (eq_like want vn obj field v) =
    core_verdict (if want then REq else RNoEq) (fst (atoi (pk_val vn))) 0 v /\
  (length (eq_like want vn obj field v) <= 1)%nat.
Proof.
  unfold eq_like, core_verdict. destruct want; destruct (eq_holds _ v); cbn; auto.
Qed.

(* equal measures, equal verdicts: integer width and signedness are irrelevant *)
Corollary width_sign_independent r lo hi v1 v2 x :
  sizeable v1 = true -> sizeable v2 = true -> measure v1 = Some x -> measure v2 = Some x ->
  core_verdict r lo hi v1 = core_verdict r lo hi v2.
Proof. intros. rewrite (core_verdict_exact r lo hi v1 x), (core_verdict_exact r lo hi v2 x); auto. Qed.
