(* GoMsgDiscipline.v — from the source text of 29 rule functions: whatever a rule function writes is nothing, or ONE
   clause built by GetJoinValidErrStr whose explanation is the rule's custom message alone when the rule text carries
   one, and the default wording (behind the English label) only when it carries none; the two exceptions come before
   the message is looked at: a value of the wrong kind, a rule that cannot be read. *)
From Coq Require Import String.
From PGV Require Import Base.Bytes Base.GoStr Base.GoNum Base.Utf8 Base.MiniGo Regex.Re Regex.Rx.
From PGV Require Import Extracted.SourceConst Extracted.SourceRegex Extracted.SourceFnsRule Extracted.SourceFnsFmt.
From PGV Require Import Model.RuleText Model.Value Model.Clause Model.Rules Model.GoRule.
From PGV Require Import Extracted.SourceFnsIn Extracted.SourceFnsInts.
From PGV Require Import Proofs.GoRuleProofs Proofs.GoFmtProofs Proofs.GoInProofs Proofs.GoIntsProofs Proofs.GoUniqueProofs Proofs.GoDatetimeProofs.
Open Scope Z_scope.

Section Shape.
  Variable orc : oracles.
  Variable U : val -> str.
  Variable FE : str -> str -> ftext -> str.
  Variable ST : str -> str.

  Inductive shape (vn obj field : str) : str -> Prop :=
  | sh_none : shape vn obj field []
  | sh_custom echo : pk_msg vn <> [] -> shape vn obj field (join_valid_err obj field echo [pk_msg vn])
  | sh_default echo rest : pk_msg vn = [] -> shape vn obj field (join_valid_err obj field echo (ExplainEn :: rest))
  | sh_stat echo : pk_msg vn = [] -> shape vn obj field (join_valid_err obj field echo [ST echo])
  | sh_kind echo : shape vn obj field (join_valid_err obj field echo [ExplainEn; MUST_STR])
  | sh_rule e : shape vn obj field (FE obj field e).

  Lemma size_clause_shape w vn obj field echo b v : shape vn obj field (size_clause U w obj field echo (pk_msg vn) b v).
  Proof.
    unfold size_clause. destruct (pk_msg vn) as [|c m] eqn:E.
    - apply sh_default. exact E.
    - rewrite <- E. apply sh_custom. rewrite E. discriminate.
  Qed.
  Lemma msg_text_shape w vn obj field echo : shape vn obj field (msg_text w vn obj field echo).
  Proof.
    unfold msg_text. destruct (pk_msg vn) as [|c m] eqn:E.
    - apply sh_default. exact E.
    - rewrite <- E. apply sh_custom. rewrite E. discriminate.
  Qed.

  Lemma to_text_shape he vn obj field v : shape vn obj field (to_text U FE he vn obj field v).
  Proof.
    unfold to_text. destruct (parse_tag_to _ _) as [[mn mx]|e]; [|apply sh_rule].
    destruct (valid_input_size mn mx v he) as [[lt gt] vs]. destruct lt; [apply size_clause_shape|].
    destruct gt; [apply size_clause_shape|apply sh_none].
  Qed.
  Lemma one_text_shape lower he vn obj field v : shape vn obj field (one_text U lower he vn obj field v).
  Proof.
    unfold one_text.
    destruct lower;
      match goal with |- context[valid_input_size ?a ?b ?v ?h] => destruct (valid_input_size a b v h) as [[b1 b2] vs] end;
      [destruct b1 | destruct b2]; first [apply size_clause_shape | apply sh_none].
  Qed.
  Lemma eq_text_shape want vn obj field v : shape vn obj field (eq_text U want vn obj field v).
  Proof. unfold eq_text. destruct (Bool.eqb _ want); [apply sh_none|apply size_clause_shape]. Qed.

  Lemma str_text_shape w ok vn obj field v : shape vn obj field (str_text w ok vn obj field v).
  Proof.
    unfold str_text. destruct v; try apply sh_kind.
    destruct (ok s); [apply sh_none|]. apply (msg_text_shape w vn obj field s).
  Qed.
  Lemma int_text_shape vn obj field v : shape vn obj field (int_text vn obj field v).
  Proof.
    unfold int_text. destruct v; try (destruct (is_num_kind _ _); [apply sh_none|apply msg_text_shape]).
    destruct (match_string _ _); [apply sh_none|apply msg_text_shape].
  Qed.
  Lemma float_text_shape vn obj field v : shape vn obj field (float_text vn obj field v).
  Proof.
    unfold float_text. destruct v; try apply msg_text_shape; try apply sh_none.
    destruct (match_string _ _); [apply sh_none|apply msg_text_shape].
  Qed.
  Lemma json_text_shape vn obj field v : shape vn obj field (json_text orc vn obj field v).
  Proof.
    unfold json_text. destruct v; try apply sh_kind. destruct (json_ok orc s); [apply sh_none|apply msg_text_shape].
  Qed.
  Lemma file_text_shape wd vn obj field v : shape vn obj field (file_text orc ST wd vn obj field v).
  Proof.
    unfold file_text. destruct v; try apply sh_kind.
    destruct (stat_lookup orc s) as [[d t]|].
    - destruct (Bool.eqb d wd); [apply sh_none|apply msg_text_shape].
    - destruct (pk_msg vn) as [|c m] eqn:E; [apply sh_stat; exact E|].
      rewrite <- E. apply sh_custom. rewrite E. discriminate.
  Qed.

  Lemma ints_text_shape vn obj field v : shape vn obj field (ints_text FE vn obj field v).
  Proof.
    unfold ints_text. destruct v; try (destruct (is_num_kind _ _); [apply sh_none|apply sh_rule]);
      match goal with |- context[forallb ?f ?l] => destruct (forallb f l) end; first [apply sh_none | apply msg_text_shape].
  Qed.
  Lemma unique_text_shape vn obj field v : shape vn obj field (unique_text FE vn obj field v).
  Proof.
    unfold unique_text. destruct v; try apply sh_rule;
      match goal with |- context[Nat.eqb ?a ?b] => destruct (Nat.eqb a b) end; first [apply sh_none | apply msg_text_shape].
  Qed.
  Lemma datetime_text_shape vn obj field v : shape vn obj field (datetime_text orc vn obj field v).
  Proof.
    unfold datetime_text. destruct v; try apply sh_kind. destruct (time_ok orc _ s); [apply sh_none|apply msg_text_shape].
  Qed.
  Lemma find_hit_total g tv : (forall x y, g x y <> None) -> forall opts, find_hit g tv opts <> None.
  Proof.
    intros Hg. induction opts as [|o r IH]; cbn [find_hit]; [discriminate|].
    destruct (g tv (trim [QUOTE] o)) as [[|]|] eqn:E; [discriminate|exact IH|exfalso; exact (Hg _ _ E)].
  Qed.
  Lemma in_text_total g vn obj field v : (forall x y, g x y <> None) -> in_text FE g vn obj field v <> None.
  Proof.
    intros Hg. unfold in_text. destruct (in_vals (pk_val vn)) as [iv|]; [|discriminate].
    destruct (match v with VStr x => Some x | _ => _ end) as [tv|]; [|discriminate].
    pose proof (find_hit_total g tv Hg (names_split SLASH iv)) as H. destruct (find_hit g tv _) as [[|]|]; [discriminate|discriminate|congruence].
  Qed.
  Lemma in_text_shape g vn obj field v t : in_text FE g vn obj field v = Some t -> shape vn obj field t.
  Proof.
    unfold in_text. destruct (in_vals (pk_val vn)) as [iv|]; [|intros H; inversion H; apply sh_rule].
    destruct (match v with VStr x => Some x | _ => _ end) as [tv|]; [|intros H; inversion H; apply sh_rule].
    destruct (find_hit g tv _) as [[|]|]; intros H; inversion H; [apply sh_none|].
    destruct (pk_msg vn) as [|c m] eqn:E; [apply sh_default; exact E|].
    rewrite <- E. apply sh_custom. rewrite E. discriminate.
  Qed.

  Definition rule_fns : list fn :=
    [fn_To; fn_OTo; fn_Ge; fn_Gt; fn_Le; fn_Lt; fn_Eq; fn_NoEq;
     fn_Phone; fn_Email; fn_IDCard; fn_Ip; fn_Ipv4; fn_Ipv6; fn_Year; fn_Year2Month; fn_Date; fn_Prefix; fn_Suffix;
     fn_Int; fn_Float; fn_Json; fn_File; fn_Dir; fn_Ints; fn_Unique; fn_In; fn_Include; fn_Datetime].

  Theorem message_discipline f vn obj field v : In f rule_fns ->
    exists t, run_rule orc U FE ST f vn obj field v = Some t /\ shape vn obj field t.
  Proof.
    unfold rule_fns. intros Hin.
    destruct Hin as [<-|Hin]; [exact (ex_intro _ _ (conj (to_from_source orc U FE ST vn obj field v) (to_text_shape true vn obj field v)))|].
    destruct Hin as [<-|Hin]; [exact (ex_intro _ _ (conj (oto_from_source orc U FE ST vn obj field v) (to_text_shape false vn obj field v)))|].
    destruct Hin as [<-|Hin]; [exact (ex_intro _ _ (conj (ge_from_source orc U FE ST vn obj field v) (one_text_shape true true vn obj field v)))|].
    destruct Hin as [<-|Hin]; [exact (ex_intro _ _ (conj (gt_from_source orc U FE ST vn obj field v) (one_text_shape true false vn obj field v)))|].
    destruct Hin as [<-|Hin]; [exact (ex_intro _ _ (conj (le_from_source orc U FE ST vn obj field v) (one_text_shape false true vn obj field v)))|].
    destruct Hin as [<-|Hin]; [exact (ex_intro _ _ (conj (lt_from_source orc U FE ST vn obj field v) (one_text_shape false false vn obj field v)))|].
    destruct Hin as [<-|Hin]; [exact (ex_intro _ _ (conj (eq_rule_from_source orc U FE ST vn obj field v) (eq_text_shape true vn obj field v)))|].
    destruct Hin as [<-|Hin]; [exact (ex_intro _ _ (conj (noeq_rule_from_source orc U FE ST vn obj field v) (eq_text_shape false vn obj field v)))|].
    destruct Hin as [<-|Hin]; [exact (ex_intro _ _ (conj (phone_from_source orc U FE ST vn obj field v) (str_text_shape _ _ vn obj field v)))|].
    destruct Hin as [<-|Hin]; [exact (ex_intro _ _ (conj (email_from_source orc U FE ST vn obj field v) (str_text_shape _ _ vn obj field v)))|].
    destruct Hin as [<-|Hin]; [exact (ex_intro _ _ (conj (idcard_from_source orc U FE ST vn obj field v) (str_text_shape _ _ vn obj field v)))|].
    destruct Hin as [<-|Hin]; [exact (ex_intro _ _ (conj (ip_from_source orc U FE ST vn obj field v) (str_text_shape _ _ vn obj field v)))|].
    destruct Hin as [<-|Hin]; [exact (ex_intro _ _ (conj (ipv4_from_source orc U FE ST vn obj field v) (str_text_shape _ _ vn obj field v)))|].
    destruct Hin as [<-|Hin]; [exact (ex_intro _ _ (conj (ipv6_from_source orc U FE ST vn obj field v) (str_text_shape _ _ vn obj field v)))|].
    destruct Hin as [<-|Hin]; [exact (ex_intro _ _ (conj (year_from_source orc U FE ST vn obj field v) (str_text_shape _ _ vn obj field v)))|].
    destruct Hin as [<-|Hin]; [exact (ex_intro _ _ (conj (year2month_from_source orc U FE ST vn obj field v) (str_text_shape _ _ vn obj field v)))|].
    destruct Hin as [<-|Hin]; [exact (ex_intro _ _ (conj (date_from_source orc U FE ST vn obj field v) (str_text_shape _ _ vn obj field v)))|].
    destruct Hin as [<-|Hin]; [exact (ex_intro _ _ (conj (prefix_from_source orc U FE ST vn obj field v) (str_text_shape _ _ vn obj field v)))|].
    destruct Hin as [<-|Hin]; [exact (ex_intro _ _ (conj (suffix_from_source orc U FE ST vn obj field v) (str_text_shape _ _ vn obj field v)))|].
    destruct Hin as [<-|Hin]; [exact (ex_intro _ _ (conj (int_from_source orc U FE ST vn obj field v) (int_text_shape vn obj field v)))|].
    destruct Hin as [<-|Hin]; [exact (ex_intro _ _ (conj (float_from_source orc U FE ST vn obj field v) (float_text_shape vn obj field v)))|].
    destruct Hin as [<-|Hin]; [exact (ex_intro _ _ (conj (json_from_source orc U FE ST vn obj field v) (json_text_shape vn obj field v)))|].
    destruct Hin as [<-|Hin]; [exact (ex_intro _ _ (conj (file_from_source orc U FE ST vn obj field v) (file_text_shape false vn obj field v)))|].
    destruct Hin as [<-|Hin]; [exact (ex_intro _ _ (conj (dir_from_source orc U FE ST vn obj field v) (file_text_shape true vn obj field v)))|].
    destruct Hin as [<-|Hin]; [exact (ex_intro _ _ (conj (ints_from_source orc U FE ST vn obj field v) (ints_text_shape vn obj field v)))|].
    destruct Hin as [<-|Hin]; [exact (ex_intro _ _ (conj (unique_from_source orc U FE ST vn obj field v) (unique_text_shape vn obj field v)))|].
    destruct Hin as [<-|Hin].
    { rewrite in_rule_from_source. destruct (in_text FE g_eq vn obj field v) as [t|] eqn:E; [|exfalso; revert E; apply in_text_total; intros; discriminate].
      exists t. split; [reflexivity|]. apply (in_text_shape _ _ _ _ _ _ E). }
    destruct Hin as [<-|Hin].
    { rewrite include_rule_from_source. destruct (in_text FE g_contains vn obj field v) as [t|] eqn:E; [|exfalso; revert E; apply in_text_total; intros; discriminate].
      exists t. split; [reflexivity|]. apply (in_text_shape _ _ _ _ _ _ E). }
    destruct Hin as [<-|Hin]; [exact (ex_intro _ _ (conj (datetime_from_source orc U FE ST vn obj field v) (datetime_text_shape vn obj field v)))|].
    destruct Hin.
  Qed.
End Shape.
