(* C10: the facts about the lock discipline extracted from cache.go on this run. *)
From PGV Require Import Base.Bytes Spec.LRUSpec Model.LRU Model.Conc Model.ConcLRU.
From PGV Require Import Proofs.ConcProofs Proofs.LRUProofs Proofs.C09Final Proofs.ConcLRUProofs.
From PGV Require Import Extracted.SourceLRU.
Open Scope Z_scope.

(* obligations re-checked against the regenerated summary *)
Lemma source_race_free : race_freeb lru_methods = true.
Proof. vm_compute. reflexivity. Qed.

Lemma source_all_locked : all_locked lru_methods = true.
Proof. vm_compute. reflexivity. Qed.

Lemma source_api_complete :
  map m_name lru_methods = [s2b "Store"; s2b "Load"; s2b "Delete"; s2b "Len"; s2b "Dump"].
Proof. vm_compute. reflexivity. Qed.

(* methods the summary reports as writing nothing are Len and Dump, whose sequential meaning
   leaves the state unchanged *)
Lemma source_readers : map m_name (filter (fun m => negb (writer m)) lru_methods) = [s2b "Len"; s2b "Dump"].
Proof. vm_compute. reflexivity. Qed.

Lemma source_ro_sem : forall m o, In m lru_methods -> m_name m = method_name o -> writer m = false ->
  forall s, fst (cstep s o) = s.
Proof.
  intros m o Hin Hname Hw s.
  assert (Hr : In (m_name m) [s2b "Len"; s2b "Dump"]).
  { rewrite <- source_readers. apply in_map. apply filter_In. split; [assumption|now rewrite Hw]. }
  rewrite Hname in Hr.
  destruct o as [[k v|k|k|]|]; cbn [method_name] in Hr; try reflexivity;
    exfalso; cbn in Hr; destruct Hr as [H|[H|[]]]; discriminate.
Qed.

Lemma source_no_race : forall c, reach lru_methods c -> forall t u m m', t <> u ->
  c t = Inside m -> c u = Inside m' -> conflict m m' = false.
Proof. exact (race_freeb_sound lru_methods source_race_free). Qed.

Lemma source_linearizes cap c : creach lru_methods cap c ->
  replay (init cap) (c_hist c) = (c_shared c, true).
Proof.
  apply commit_order_linearizes.
  - exact source_all_locked.
  - apply race_free_writers. exact source_race_free.
  - exact source_ro_sem.
Qed.

(* at any moment (hence at quiescence) the shared state is a sequentially reachable LRU state:
   C09's invariant and capacity bound hold of it *)
Lemma source_quiescent cap c : 0 <= cap -> creach lru_methods cap c ->
  (exists a, Inv (c_shared c) a) /\ Z.of_nat (length (lst (c_shared c))) <= cap /\
  len (c_shared c) = Z.of_nat (length (lst (c_shared c))).
Proof.
  intros Hc Hr. pose proof (source_linearizes cap c Hr) as H.
  apply replay_run in H. rewrite H.
  split; [apply reachable_inv; assumption|]. split.
  - apply (bounded cap (ops_of (c_hist c)) Hc).
  - apply (len_exact cap (ops_of (c_hist c)) Hc).
Qed.
