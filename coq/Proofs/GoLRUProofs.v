(* GoLRUProofs.v — the method bodies of LRUCache extracted from /repo compute the model's steps. *)
From Coq Require Import String.
From PGV Require Import Base.Bytes Base.MiniGo Spec.LRUSpec Model.LRU Model.GoLRU Extracted.SourceFnsLRU.
From PGV Require Import Proofs.LRUProofs.
Open Scope Z_scope.

(* reduce the interpreter, leave the model's vocabulary alone *)
Ltac istep :=
  lazy beta iota zeta delta
    [go_store go_delete go_load go_len run_method recv_of param_names fresh with_cache upd_cache
     lexec lexec_list leval lget lset lempty is_recv is_field is_list_call lock_call move_front set_value remove elem_val
     cache dead fn_body fn_recv fn_params fn_name fn_results
     fn_LRUCache_Store fn_LRUCache_Load fn_LRUCache_Delete fn_LRUCache_Len
     String.eqb Ascii.eqb Bool.eqb andb orb negb];
  cbn [upd maxsz delcnt nmap lst next log map].

Lemma lookup_val c a k i : Inv c a -> lookup k (nmap c) = Some i -> exists v, lst_val i (lst c) = Some v.
Proof.
  intros HI El. pose proof (lookup_spec c a k HI) as H. rewrite El in H. exact (lst_val_onto c a k i HI H).
Qed.

Theorem go_load_model c a k : Inv c a ->
  go_load fn_LRUCache_delete fn_LRUCache_Load k c = Some (load k c).
Proof.
  intros HI. unfold load. istep.
  destruct (lookup k (nmap c)) as [i|] eqn:El; istep; [|reflexivity].
  destruct (lookup_val c a k i HI El) as [v Ev]. rewrite Ev. istep. rewrite Ev. istep. reflexivity.
Qed.

Theorem go_len_model c : go_len fn_LRUCache_delete fn_LRUCache_Len c = Some (len c).
Proof.
  unfold len. istep.
  destruct (Nat.eqb_spec (List.length (lst c)) (List.length (nmap c))) as [E|E].
  - rewrite E, Z.eqb_refl. istep. now rewrite E.
  - replace (Z.of_nat (List.length (lst c)) =? Z.of_nat (List.length (nmap c))) with false
      by (symmetry; apply Z.eqb_neq; lia). istep. reflexivity.
Qed.

(* ---------- the two loops of delete() ---------- *)
Lemma find_rev_ids (m : list (K * id)) i : NoDup (map snd m) ->
  find (fun p => N.eqb (snd p) i) (rev m) = find (fun p => N.eqb (snd p) i) m.
Proof.
  intros Hnd. destruct (find (fun p => N.eqb (snd p) i) m) as [[k j]|] eqn:Ef.
  - apply find_some in Ef as [Hin Hj]. cbn in Hj. apply N.eqb_eq in Hj. subst j.
    apply find_id_some; [rewrite map_rev; now apply NoDup_rev|now apply in_rev in Hin].
  - destruct (find (fun p => N.eqb (snd p) i) (rev m)) as [p|] eqn:Er; [|reflexivity].
    apply find_some in Er as [Hin Hp]. apply in_rev in Hin. eapply find_none in Ef; [|exact Hin]. congruence.
Qed.

Lemma find_loop (body : ist -> lenv -> flow) i ents : forall s e,
  (forall s e k j, e "node"%string = LElem (Some i) ->
     body s (lset "v" (LElem (Some j)) (lset "k" (LKey (Some k)) e)) =
     if N.eqb j i then FBreak s (lset "key" (LKey (Some k)) (lset "v" (LElem (Some j)) (lset "k" (LKey (Some k)) e)))
     else FNext s (lset "v" (LElem (Some j)) (lset "k" (LKey (Some k)) e))) ->
  e "node"%string = LElem (Some i) ->
  exists e', range_loop body "k" "v" ents s e = FNext s e' /\ e' "node"%string = LElem (Some i) /\
    e' "key"%string = match find (fun p => N.eqb (snd p) i) ents with Some (k, _) => LKey (Some k) | None => e "key"%string end.
Proof.
  induction ents as [|[k j] r IH]; intros s e Hb Hn; cbn [range_loop find snd].
  - exists e. repeat split; assumption.
  - rewrite (Hb s e k j Hn). destruct (N.eqb j i).
    + eexists. split; [reflexivity|]. split; [exact Hn|reflexivity].
    + destruct (IH s (lset "v" (LElem (Some j)) (lset "k" (LKey (Some k)) e)) Hb Hn) as (e' & E & Hn' & Hk').
      exists e'. split; [exact E|]. split; [exact Hn'|]. rewrite Hk'. reflexivity.
Qed.

Lemma map_del_notin k (m : list (K * id)) : ~ In k (map fst m) -> map_del k m = m.
Proof.
  induction m as [|[k' i'] m IH]; cbn; intros H; [reflexivity|].
  destruct (N.eqb_spec k' k) as [->|Hne]; [exfalso; apply H; now left|]. cbn. f_equal. apply IH. tauto.
Qed.

Definition set_nmap (s : ist) (m : list (K * id)) : ist :=
  {| cache := upd (cache s) (delcnt (cache s)) m (lst (cache s)) (next (cache s)) (log (cache s)); dead := dead s |}.

Lemma rebuild_loop (body : ist -> lenv -> flow) ents : forall s e,
  (forall s e k j, body s (lset "v" (LElem (Some j)) (lset "k" (LKey (Some k)) e)) =
     FNext (set_nmap s ((k, j) :: map_del k (nmap (cache s)))) (lset "v" (LElem (Some j)) (lset "k" (LKey (Some k)) e))) ->
  NoDup (map fst ents) -> (forall k, In k (map fst ents) -> ~ In k (map fst (nmap (cache s)))) ->
  exists e', range_loop body "k" "v" ents s e = FNext (set_nmap s (rev ents ++ nmap (cache s))) e'.
Proof.
  induction ents as [|[k j] r IH]; intros s e Hb Hnd Hdis; cbn [range_loop].
  - exists e. destruct s as [[a b0 m l n lg] dd]. reflexivity.
  - rewrite Hb. inversion Hnd as [|? ? Hk Hnd']; subst.
    rewrite map_del_notin by (apply Hdis; now left).
    destruct (IH (set_nmap s ((k, j) :: nmap (cache s))) (lset "v" (LElem (Some j)) (lset "k" (LKey (Some k)) e)) Hb Hnd') as (e' & E).
    + intros k' Hin [Hc|Hc]; [cbn in Hc; subst k'; now apply Hk|]. cbn in Hc. apply (Hdis k'); [now right|exact Hc].
    + exists e'. rewrite E. unfold set_nmap. cbn [cache dead nmap delcnt lst next log upd maxsz rev].
      now rewrite <- app_assoc.
Qed.

Ltac istep_keep_loop :=
  lazy beta iota zeta delta
    [go_store go_delete go_load go_len run_method run_delete recv_of param_names fresh with_cache upd_cache
     lexec lexec_list leval lget lset lempty is_recv is_field is_list_call lock_call move_front set_value remove elem_val
     cache dead fn_body fn_recv fn_params fn_name fn_results
     fn_LRUCache_Store fn_LRUCache_Load fn_LRUCache_Delete fn_LRUCache_delete fn_LRUCache_Len
     String.eqb Ascii.eqb Bool.eqb andb orb negb];
  cbn [upd maxsz delcnt nmap lst next log map].

Lemma lst_val_del_same i (l : list (id * V)) : lst_val i (lst_del i l) = None.
Proof.
  unfold lst_val, lst_del. induction l as [|[j w] l IH]; cbn; [reflexivity|].
  destruct (N.eqb_spec j i) as [->|Hne]; cbn; [exact IH|]. destruct (N.eqb_spec j i); [contradiction|exact IH].
Qed.

Lemma lst_val_head i v (l : list (id * V)) : lst_val i ((i, v) :: l) = Some v.
Proof. unfold lst_val. cbn [find fst]. now rewrite N.eqb_refl. Qed.

Lemma go_delete_node c dd i v : lst_val i (lst c) = Some v ->
  NoDup (map fst (nmap c)) -> NoDup (map snd (nmap c)) ->
  run_delete fn_LRUCache_delete {| cache := c; dead := dd |} (LElem (Some i)) =
  Some {| cache := delete_node i v c; dead := (i, v) :: dd |}.
Proof.
  intros Hv Hk Hi. unfold delete_node. istep_keep_loop.
  match goal with |- context[range_loop ?B "k"%string "v"%string ?E ?S ?EN] =>
    destruct (find_loop B i E S EN) as (e1 & E1 & Hn1 & Hk1) end.
  { intros s e k j Hn. istep_keep_loop. rewrite Hn. destruct (N.eqb j i); reflexivity. }
  { reflexivity. }
  rewrite E1. clear E1. rewrite find_rev_ids in Hk1 by exact Hi. cbn [lget lset lempty String.eqb Ascii.eqb Bool.eqb] in Hk1.
  unfold key_of. destruct (find (fun p => N.eqb (snd p) i) (nmap c)) as [[k j]|] eqn:Ef; cbn [option_map fst];
    repeat (istep_keep_loop; rewrite ?Hk1, ?Hn1, ?Hv, ?lst_val_del_same, ?lst_val_head);
    cbn [cache dead]; destruct (2 * maxsz c <? delcnt c) eqn:Ec; try reflexivity.
  all: match goal with |- context[range_loop ?B "k"%string "v"%string (rev ?M) ?S ?EN] =>
         destruct (rebuild_loop B (rev M) S EN) as (e2 & E2) end.
  all: try (intros s e k0 j0; istep_keep_loop; destruct s as [cc ddd]; reflexivity).
  all: try (rewrite map_rev; apply NoDup_rev; try apply NoDup_filter_map; exact Hk).
  all: try (intros k0 _ []).
  all: rewrite E2; rewrite rev_involutive; unfold set_nmap; cbn [cache dead nmap lst next log delcnt upd app]; rewrite app_nil_r; reflexivity.
Qed.

Theorem go_delete_model c a k : Inv c a ->
  go_delete fn_LRUCache_delete fn_LRUCache_Delete k c = Some (del k c).
Proof.
  intros HI. unfold del. istep.
  destruct (lookup k (nmap c)) as [i|] eqn:El; istep; [|reflexivity].
  destruct (lookup_val c a k i HI El) as [v Ev]. rewrite Ev.
  rewrite (go_delete_node c [] i v Ev (inv_keys _ _ HI) (inv_idsm _ _ HI)). reflexivity.
Qed.

Lemma lst_val_in (l : list (id * V)) j w : NoDup (map fst l) -> In (j, w) l -> lst_val j l = Some w.
Proof.
  unfold lst_val. induction l as [|[j' w'] l IH]; cbn; intros Hnd Hin; [contradiction|].
  inversion Hnd as [|? ? Hni Hnd']; subst. destruct Hin as [E|Hin].
  - inversion E; subst. now rewrite N.eqb_refl.
  - destruct (N.eqb_spec j' j) as [->|Hne]; [|auto].
    exfalso. apply Hni. change j with (fst (j, w)). now apply in_map.
Qed.

Lemma lst_del_set (i v : N) (l : list (N * N)) :
  lst_del i (map (fun p : N * N => if N.eqb (fst p) i then (i, v) else p) l) = lst_del i l.
Proof.
  unfold lst_del. induction l as [|[j w] l IH]; cbn; [reflexivity|].
  destruct (N.eqb_spec j i) as [->|Hne]; cbn.
  - rewrite N.eqb_refl. cbn. exact IH.
  - destruct (N.eqb_spec j i); [contradiction|]. cbn. now rewrite IH.
Qed.
Lemma lst_val_set (i v : N) (l : list (N * N)) w : lst_val i l = Some w ->
  lst_val i (map (fun p : N * N => if N.eqb (fst p) i then (i, v) else p) l) = Some v.
Proof.
  unfold lst_val. induction l as [|[j w'] l IH]; cbn; [discriminate|].
  destruct (N.eqb_spec j i) as [->|Hne]; cbn.
  - rewrite N.eqb_refl. reflexivity.
  - destruct (N.eqb_spec j i); [contradiction|]. exact IH.
Qed.

Lemma lookup_none_notin (m : list (K * id)) k : lookup k m = None -> ~ In k (map fst m).
Proof.
  unfold lookup. destruct (find (fun p => N.eqb (fst p) k) m) eqn:Ef; [discriminate|]. intros _ Hin.
  apply in_map_iff in Hin as ([k' i'] & E & Hin). cbn in E. subst k'. exact (find_key_none m k Ef i' Hin).
Qed.

Lemma last_cons_same {X} (x : X) l : last (x :: l) x = last l x.
Proof. destruct l; reflexivity. Qed.
Lemma last_in_cons {X} (l : list X) d : In (last l d) (d :: l).
Proof.
  destruct l as [|y l]; [now left|]. right. apply (last_in (y :: l) d). discriminate.
Qed.
Lemma fresh_lst c a : Inv c a -> ~ In (next c) (map fst (lst c)).
Proof.
  intros HI Hin. apply in_map_iff in Hin as ([i w] & E & Hin). cbn in E. subst i.
  destruct (R_in_lst _ _ _ _ _ (inv_R _ _ HI) Hin) as (k & Hk & _).
  pose proof (inv_fresh _ _ HI k (next c) Hk). lia.
Qed.
Lemma fresh_ids c a : Inv c a -> ~ In (next c) (map snd (nmap c)).
Proof.
  intros HI Hin. apply in_map_iff in Hin as ([k i] & E & Hin). cbn in E. subst i.
  pose proof (inv_fresh _ _ HI k (next c) Hin). lia.
Qed.

Theorem go_store_model c a k v : Inv c a ->
  go_store fn_LRUCache_delete fn_LRUCache_Store k v c = Some (store k v c).
Proof.
  intros HI. unfold store. istep.
  destruct (lookup k (nmap c)) as [i|] eqn:El; istep.
  - destruct (lookup_val c a k i HI El) as [w Ew].
    rewrite (lst_val_set i v (lst c) w Ew). istep. rewrite lst_del_set. reflexivity.
  - rewrite (map_del_notin k (nmap c) (lookup_none_notin _ _ El)).
    destruct (maxsz c <? Z.of_nat (List.length ((next c, v) :: lst c))) eqn:Em; [|reflexivity].
    rewrite last_cons_same. destruct (last (lst c) (next c, v)) as [j w] eqn:Elast. cbn [fst].
    match goal with |- context[run_delete _ {| cache := ?S1; dead := [] |} _] => set (s1 := S1) end.
    assert (Hin : In (j, w) ((next c, v) :: lst c)) by (rewrite <- Elast; apply last_in_cons).
    assert (Hnd : NoDup (map fst ((next c, v) :: lst c))).
    { cbn [map fst]. constructor; [exact (fresh_lst c a HI)|exact (inv_idsl _ _ HI)]. }
    rewrite (go_delete_node s1 [] j w).
    + reflexivity.
    + subst s1. cbn [lst upd]. exact (lst_val_in _ j w Hnd Hin).
    + subst s1. cbn [nmap upd map fst]. constructor; [exact (lookup_none_notin _ _ El)|exact (inv_keys _ _ HI)].
    + subst s1. cbn [nmap upd map snd]. constructor; [exact (fresh_ids c a HI)|exact (inv_idsm _ _ HI)].
Qed.

(* ---------- every history: running the extracted bodies = running the model ---------- *)
Definition go_step (s : st) (o : op) : option (st * out) :=
  match o with
  | OStore k v => option_map (fun s' => (s', RNone)) (go_store fn_LRUCache_delete fn_LRUCache_Store k v s)
  | OLoad k => option_map (fun p => (fst p, RLoad (snd p))) (go_load fn_LRUCache_delete fn_LRUCache_Load k s)
  | ODelete k => option_map (fun s' => (s', RNone)) (go_delete fn_LRUCache_delete fn_LRUCache_Delete k s)
  | OLen => option_map (fun z => (s, RLen z)) (go_len fn_LRUCache_delete fn_LRUCache_Len s)
  end.
Fixpoint go_run (s : st) (ops : list op) : option (st * list out) :=
  match ops with
  | [] => Some (s, [])
  | o :: r => match go_step s o with
              | Some (s1, x) => match go_run s1 r with Some (s2, xs) => Some (s2, x :: xs) | None => None end
              | None => None
              end
  end.

Lemma go_step_model s a o : Inv s a -> go_step s o = Some (step s o).
Proof.
  intros HI. destruct o as [k v|k|k|]; cbn [go_step step].
  - now rewrite (go_store_model s a k v HI).
  - rewrite (go_load_model s a k HI). cbn [option_map]. now destruct (load k s).
  - now rewrite (go_delete_model s a k HI).
  - now rewrite (go_len_model s).
Qed.

Theorem go_run_model ops : forall s a, Inv s a -> (Z.of_nat (List.length a) <= maxsz s)%Z ->
  go_run s ops = Some (run s ops).
Proof.
  induction ops as [|o ops IH]; intros s a HI Hcap; cbn [go_run run]; [reflexivity|].
  rewrite (go_step_model s a o HI).
  pose proof (step_refines s a o HI Hcap) as H.
  destruct (step s o) as [s1 x]. destruct (a_step (maxsz s) a o) as [[a1 x'] ev].
  destruct H as (_ & HI1 & _ & Hcap1 & Hmax). rewrite <- Hmax in Hcap1.
  rewrite (IH s1 a1 HI1 Hcap1). now destruct (run s1 ops).
Qed.

Theorem go_run_init c ops : (0 <= c)%Z -> go_run (init c) ops = Some (run (init c) ops).
Proof. intros Hc. apply (go_run_model ops (init c) [] (inv_init c)). cbn. lia. Qed.
