(* DumpProofs.v — C20: on the property's domain the model of valid/dump.go prints exactly the
   document of the specification, and that text is RFC 8259 JSON which parses back to the document.
   Induction on fuel, one lemma per helper of Model/Dump.v. *)
From PGV Require Import Base.Bytes Base.GoNum Json.Grammar Model.DumpVal Model.Dump Spec.DumpSpec.
Open Scope N_scope.
Local Notation byte := N (only parsing).
Local Notation str := (list N) (only parsing).

(* Base/Bytes.v defines its aliases as constants; rewriting needs them gone from implicit arguments *)
Ltac nrm := unfold Bytes.str, Bytes.byte in *.

(* ================= decimal renderings are JSON numbers ================= *)

Lemma dig19_dig c : is_dig19 c = true -> is_dig c = true.
Proof.
  unfold is_dig19, is_dig. intros H. apply andb_prop in H as [Ha Hb].
  apply N.leb_le in Ha. rewrite Hb, andb_true_r. apply N.leb_le. lia.
Qed.

Lemma itoa_pos_shape f : forall n acc,
  0 < n -> n < 2 ^ N.of_nat f -> forallb is_dig acc = true ->
  exists c ds, itoa_pos f n acc = c :: ds /\ is_dig19 c = true /\ forallb is_dig ds = true.
Proof.
  induction f as [|f IH]; intros n acc Hpos Hlt Hacc.
  - cbn in Hlt. lia.
  - cbn [itoa_pos]. cbv zeta.
    assert (Hmod : n mod 10 < 10) by (apply N.mod_lt; lia).
    destruct (n <? 10) eqn:E.
    + apply N.ltb_lt in E. exists (48 + n mod 10), acc. split; [reflexivity|]. split; [|exact Hacc].
      rewrite N.mod_small by exact E. unfold is_dig19.
      apply andb_true_intro. split; apply N.leb_le; lia.
    + apply N.ltb_ge in E. apply IH.
      * apply N.div_str_pos. lia.
      * apply N.div_lt_upper_bound; [lia|].
        rewrite Nat2N.inj_succ, N.pow_succ_r' in Hlt. set (p := 2 ^ N.of_nat f) in *. clearbody p. lia.
      * cbn [forallb]. rewrite Hacc, andb_true_r. unfold is_dig. clear Hlt IH. set (m := n mod 10) in *. clearbody m.
        apply andb_true_intro. split; apply N.leb_le; lia.
Qed.

Lemma utoa_shape n :
  utoa n = [48] \/ exists c ds, utoa n = c :: ds /\ is_dig19 c = true /\ forallb is_dig ds = true.
Proof.
  destruct n as [|p]; [left; reflexivity|right].
  unfold utoa. apply itoa_pos_shape; [lia| |reflexivity].
  rewrite Nat2N.inj_succ, N2Nat.id. apply N.log2_spec. lia.
Qed.

Lemma span_all_digits ds : forallb is_dig ds = true -> span_digits ds = (ds, []).
Proof.
  induction ds as [|c ds IH]; intros H; [reflexivity|].
  cbn [forallb] in H. apply andb_prop in H as [Hc Hr].
  cbn [span_digits]. rewrite Hc, (IH Hr). reflexivity.
Qed.

Lemma dig19_neq c k : is_dig19 c = true -> (k < 49 \/ 57 < k) -> (c =? k) = false.
Proof.
  unfold is_dig19. intros H Hk. apply andb_prop in H as [Ha Hb].
  apply N.leb_le in Ha. apply N.leb_le in Hb. apply N.eqb_neq. lia.
Qed.

Lemma jnum_ok_digits c ds : is_dig19 c = true -> forallb is_dig ds = true ->
  jnum_ok (c :: ds) = true /\ jnum_ok (45 :: c :: ds) = true.
Proof.
  intros Hc Hds.
  assert (Hi : scan_int (c :: ds) = Some (c :: ds, [])).
  { cbn [scan_int]. rewrite (dig19_neq c 48 Hc) by lia. rewrite Hc, (span_all_digits _ Hds). reflexivity. }
  split; unfold jnum_ok, scan_number.
  - rewrite (dig19_neq c 45 Hc) by lia. rewrite Hi. reflexivity.
  - change (45 =? 45) with true. cbv iota. rewrite Hi. reflexivity.
Qed.

Lemma jnum_ok_utoa n : jnum_ok (utoa n) = true.
Proof.
  destruct (utoa_shape n) as [-> | (c & ds & -> & Hc & Hds)]; [reflexivity|].
  apply (jnum_ok_digits c ds Hc Hds).
Qed.

Lemma jnum_ok_itoa z : jnum_ok (itoa z) = true.
Proof.
  unfold itoa. destruct (z <? 0)%Z; [|apply jnum_ok_utoa].
  destruct (utoa_shape (Z.to_N (- z))) as [-> | (c & ds & -> & Hc & Hds)]; [reflexivity|].
  apply (jnum_ok_digits c ds Hc Hds).
Qed.

Lemma dig_plain c : is_dig c = true -> plain_byte c = true.
Proof.
  unfold is_dig, plain_byte. intros H. apply andb_prop in H as [Ha Hb].
  apply N.leb_le in Ha. apply N.leb_le in Hb.
  replace (c =? 34) with false by (symmetry; apply N.eqb_neq; lia).
  replace (c =? 92) with false by (symmetry; apply N.eqb_neq; lia).
  cbn [negb andb]. apply N.leb_le. lia.
Qed.

Lemma digs_plain ds : forallb is_dig ds = true -> str_plain ds = true.
Proof.
  unfold str_plain. induction ds as [|c ds IH]; intros H; [reflexivity|].
  cbn [forallb] in *. apply andb_prop in H as [Hc Hr]. rewrite (dig_plain _ Hc), (IH Hr). reflexivity.
Qed.

Lemma utoa_plain n : str_plain (utoa n) = true.
Proof.
  destruct (utoa_shape n) as [-> | (c & ds & -> & Hc & Hds)]; [reflexivity|].
  apply digs_plain. cbn [forallb]. now rewrite (dig19_dig _ Hc), Hds.
Qed.

Lemma itoa_plain z : str_plain (itoa z) = true.
Proof.
  unfold itoa. destruct (z <? 0)%Z; [|apply utoa_plain].
  unfold str_plain. cbn [forallb]. change (plain_byte 45) with true. cbn [andb]. apply utoa_plain.
Qed.

(* ================= generic helpers ================= *)

Lemma max_list_Forall (l : list nat) m : (max_list l <= m)%nat -> Forall (fun x => (x <= m)%nat) l.
Proof.
  unfold max_list. induction l as [|x l IH]; cbn [fold_right]; intros H; constructor; [lia|apply IH; lia].
Qed.

Lemma depth_elems vs m : (max_list (map depth vs) <= m)%nat -> Forall (fun x => (depth x <= m)%nat) vs.
Proof. intros H. apply max_list_Forall in H. now rewrite Forall_map in H. Qed.

Lemma depth_fields (fs : list (finfo * val)) m :
  (max_list (map (fun f => depth (snd f)) fs) <= m)%nat -> Forall (fun f => (depth (snd f) <= m)%nat) fs.
Proof. intros H. apply max_list_Forall in H. now rewrite Forall_map in H. Qed.

Lemma depth_entries (es : list (val * val)) m :
  (max_list (map (fun e => Nat.max (depth (fst e)) (depth (snd e))) es) <= m)%nat ->
  Forall (fun e => (depth (fst e) <= m)%nat /\ (depth (snd e) <= m)%nat) es.
Proof.
  intros H. apply max_list_Forall in H. rewrite Forall_map in H.
  eapply Forall_impl; [|exact H]. cbn beta. intros e He. lia.
Qed.

Lemma depth_ge3 v : (3 <= depth v)%nat.
Proof. destruct v as [| | | | | | | | | | | | [x|] |]; cbn [depth]; lia. Qed.

Lemma is_exported_spec name : is_exported name = ascii_capital_initial name.
Proof. reflexivity. Qed.

Lemma key_ok_val k : key_ok k = true -> ok_val k = true.
Proof. destruct k; cbn; congruence. Qed.

(* the document of a value in the domain, with its well-formedness *)
Definition doc_ok (v : val) (d : jdoc) : Prop := doc_of v = Some d /\ jwfb d = true.

Definition pre_of (need : bool) (name : str) : str := if need then quoted name ++ [58] else [].

(* the three induction statements (see the comment on [depth] in Model/DumpVal.v) *)
Definition elem_at (n : nat) : Prop :=            (* HandleDumpStruct(elem, true) *)
  forall v, ok_val v = true -> (depth v <= n)%nat ->
            exists d, doc_ok v d /\ handle n v true = Ok (jprint d).
Definition kv_at (n : nat) : Prop :=              (* loopHandleKV *)
  forall v, ok_val v = true -> (depth v <= n + 1)%nat ->
            exists d, doc_ok v d /\
                      forall name t need, (str_eqb name TIME_NAME && t) = false ->
                                          loop_kv n name t v need = Ok (pre_of need name ++ jprint d).
Definition top_at (n : nat) : Prop :=             (* HandleDumpStruct(v) *)
  forall v, ok_val v = true -> top_shape v = true -> (depth v <= n + 2)%nat ->
            exists d, doc_ok v d /\ handle n v false = Ok (jprint d).

(* ---- dump.go:118-127, the slice loop ---- *)
Lemma elems_ok n (H1 : elem_at n) : forall vs len i,
  forallb ok_val vs = true -> Forall (fun x => (depth x <= n)%nat) vs -> (i + length vs = len)%nat ->
  exists ds, docs_of doc_of vs = Some ds /\ forallb jwfb ds = true /\
             elems_from (handle n) len i vs = Ok (print_elems jprint ds).
Proof.
  induction vs as [|x rest IH]; intros len i Hok Hd Hlen.
  - exists []. repeat split; reflexivity.
  - cbn [forallb] in Hok. apply andb_prop in Hok as [Hx Hr].
    inversion Hd as [|? ? Hdx Hdr]; subst.
    destruct (H1 x Hx Hdx) as (d & [Hdoc Hwf] & Hrun).
    destruct (IH (i + length (x :: rest))%nat (S i) Hr Hdr) as (ds & Hds & Hwfs & Hruns); [cbn [length]; lia|].
    cbn [docs_of elems_from]. rewrite Hdoc, Hds.
    exists (d :: ds). split; [reflexivity|]. split; [cbn [forallb]; now rewrite Hwf, Hwfs|].
    nrm. rewrite Hrun. cbn [bind]. rewrite Hruns. cbn [bind print_elems].
    destruct rest as [|y rest'].
    + cbn [docs_of] in Hds. inversion Hds; subst ds.
      replace (Z.of_nat i <? Z.of_nat (i + length [x]) - 1)%Z with false
        by (symmetry; apply Z.ltb_ge; cbn [length]; lia).
      cbn [print_elems app]. reflexivity.
    + cbn [docs_of] in Hds. destruct (doc_of y); [|discriminate].
      destruct (docs_of doc_of rest'); [|discriminate]. inversion Hds; subst ds.
      replace (Z.of_nat i <? Z.of_nat (i + length (x :: y :: rest')) - 1)%Z with true
        by (symmetry; apply Z.ltb_lt; cbn [length]; lia).
      cbn [app]. reflexivity.
Qed.
