(* DumpProofs.v — C20: on the property's domain the model of valid/dump.go prints exactly the
   document of the specification, and that text is RFC 8259 JSON which parses back to the document.
   Induction on fuel, one lemma per helper of Model/Dump.v. *)
From PGV Require Import Base.Bytes Base.GoNum Json.Grammar Model.DumpVal Model.Dump Spec.DumpSpec.
Open Scope N_scope.
Local Notation byte := N (only parsing).
Local Notation str := (list N) (only parsing).

(* Base/Bytes.v defines its aliases as constants; rewriting needs them gone from implicit arguments *)
Ltac nrm := idtac.

(* ================= decimal renderings are JSON numbers ================= *)

Lemma dig19_dig c : is_dig19 c = true -> is_dig c = true.
Proof.
  unfold is_dig19, is_dig. intros H. apply andb_prop in H as [Ha Hb].
  apply N.leb_le in Ha. rewrite Hb, andb_true_r. apply N.leb_le. lia.
Qed.

Lemma itoa_pos_shape f : forall n acc,
  0 < n -> n < 2 ^ N.of_nat f -> forallb is_dig acc = true ->
  exists c ds, itoa_pos f n acc = c :: ds /\ is_dig19 c = true /\ forallb is_dig ds = true.
Proof.
  induction f as [|f IH]; intros n acc Hpos Hlt Hacc.
  - cbn in Hlt. lia.
  - cbn [itoa_pos]. cbv zeta.
    assert (Hmod : n mod 10 < 10) by (apply N.mod_lt; lia).
    destruct (n <? 10) eqn:E.
    + apply N.ltb_lt in E. exists (48 + n mod 10), acc. split; [reflexivity|]. split; [|exact Hacc].
      rewrite N.mod_small by exact E. unfold is_dig19.
      apply andb_true_intro. split; apply N.leb_le; lia.
    + apply N.ltb_ge in E. apply IH.
      * apply N.div_str_pos. lia.
      * apply N.div_lt_upper_bound; [lia|].
        rewrite Nat2N.inj_succ, N.pow_succ_r' in Hlt. set (p := 2 ^ N.of_nat f) in *. clearbody p. lia.
      * cbn [forallb]. rewrite Hacc, andb_true_r. unfold is_dig. clear Hlt IH. set (m := n mod 10) in *. clearbody m.
        apply andb_true_intro. split; apply N.leb_le; lia.
Qed.

Lemma utoa_shape n :
  utoa n = [48] \/ exists c ds, utoa n = c :: ds /\ is_dig19 c = true /\ forallb is_dig ds = true.
Proof.
  destruct n as [|p]; [left; reflexivity|right].
  unfold utoa. apply itoa_pos_shape; [lia| |reflexivity].
  rewrite Nat2N.inj_succ, N2Nat.id. apply N.log2_spec. lia.
Qed.

Lemma span_all_digits ds : forallb is_dig ds = true -> span_digits ds = (ds, []).
Proof.
  induction ds as [|c ds IH]; intros H; [reflexivity|].
  cbn [forallb] in H. apply andb_prop in H as [Hc Hr].
  cbn [span_digits]. rewrite Hc, (IH Hr). reflexivity.
Qed.

Lemma dig19_neq c k : is_dig19 c = true -> (k < 49 \/ 57 < k) -> (c =? k) = false.
Proof.
  unfold is_dig19. intros H Hk. apply andb_prop in H as [Ha Hb].
  apply N.leb_le in Ha. apply N.leb_le in Hb. apply N.eqb_neq. lia.
Qed.

Lemma jnum_ok_digits c ds : is_dig19 c = true -> forallb is_dig ds = true ->
  jnum_ok (c :: ds) = true /\ jnum_ok (45 :: c :: ds) = true.
Proof.
  intros Hc Hds.
  assert (Hi : scan_int (c :: ds) = Some (c :: ds, [])).
  { cbn [scan_int]. rewrite (dig19_neq c 48 Hc) by lia. rewrite Hc, (span_all_digits _ Hds). reflexivity. }
  split; unfold jnum_ok, scan_number.
  - rewrite (dig19_neq c 45 Hc) by lia. rewrite Hi. reflexivity.
  - change (45 =? 45) with true. cbv iota. rewrite Hi. reflexivity.
Qed.

Lemma jnum_ok_utoa n : jnum_ok (utoa n) = true.
Proof.
  destruct (utoa_shape n) as [-> | (c & ds & -> & Hc & Hds)]; [reflexivity|].
  apply (jnum_ok_digits c ds Hc Hds).
Qed.

Lemma jnum_ok_itoa z : jnum_ok (itoa z) = true.
Proof.
  unfold itoa. destruct (z <? 0)%Z; [|apply jnum_ok_utoa].
  destruct (utoa_shape (Z.to_N (- z))) as [-> | (c & ds & -> & Hc & Hds)]; [reflexivity|].
  apply (jnum_ok_digits c ds Hc Hds).
Qed.

Lemma dig_plain c : is_dig c = true -> plain_byte c = true.
Proof.
  unfold is_dig, plain_byte. intros H. apply andb_prop in H as [Ha Hb].
  apply N.leb_le in Ha. apply N.leb_le in Hb.
  replace (c =? 34) with false by (symmetry; apply N.eqb_neq; lia).
  replace (c =? 92) with false by (symmetry; apply N.eqb_neq; lia).
  cbn [negb andb]. apply N.leb_le. lia.
Qed.

Lemma digs_plain ds : forallb is_dig ds = true -> str_plain ds = true.
Proof.
  unfold str_plain. induction ds as [|c ds IH]; intros H; [reflexivity|].
  cbn [forallb] in *. apply andb_prop in H as [Hc Hr]. rewrite (dig_plain _ Hc), (IH Hr). reflexivity.
Qed.

Lemma utoa_plain n : str_plain (utoa n) = true.
Proof.
  destruct (utoa_shape n) as [-> | (c & ds & -> & Hc & Hds)]; [reflexivity|].
  apply digs_plain. cbn [forallb]. now rewrite (dig19_dig _ Hc), Hds.
Qed.

Lemma itoa_plain z : str_plain (itoa z) = true.
Proof.
  unfold itoa. destruct (z <? 0)%Z; [|apply utoa_plain].
  unfold str_plain. cbn [forallb]. change (plain_byte 45) with true. cbn [andb]. apply utoa_plain.
Qed.

(* ================= generic helpers ================= *)

Lemma max_list_Forall (l : list nat) m : (max_list l <= m)%nat -> Forall (fun x => (x <= m)%nat) l.
Proof.
  unfold max_list. induction l as [|x l IH]; cbn [fold_right]; intros H; constructor; [lia|apply IH; lia].
Qed.

Lemma depth_elems vs m : (max_list (map depth vs) <= m)%nat -> Forall (fun x => (depth x <= m)%nat) vs.
Proof. intros H. apply max_list_Forall in H. now rewrite Forall_map in H. Qed.

Lemma depth_fields (fs : list (finfo * val)) m :
  (max_list (map (fun f => depth (snd f)) fs) <= m)%nat -> Forall (fun f => (depth (snd f) <= m)%nat) fs.
Proof. intros H. apply max_list_Forall in H. now rewrite Forall_map in H. Qed.

Lemma depth_entries (es : list (val * val)) m :
  (max_list (map (fun e => Nat.max (depth (fst e)) (depth (snd e))) es) <= m)%nat ->
  Forall (fun e => (depth (fst e) <= m)%nat /\ (depth (snd e) <= m)%nat) es.
Proof.
  intros H. apply max_list_Forall in H. rewrite Forall_map in H.
  eapply Forall_impl; [|exact H]. cbn beta. intros e He. lia.
Qed.

Lemma depth_ge3 v : (3 <= depth v)%nat.
Proof. destruct v as [| | | | | | | | | | | | [x|] |]; cbn [depth]; lia. Qed.

Lemma is_exported_spec name : is_exported name = ascii_capital_initial name.
Proof. reflexivity. Qed.

Lemma key_ok_val k : key_ok k = true -> ok_val k = true.
Proof. destruct k; cbn; congruence. Qed.

(* the document of a value in the domain, with its well-formedness *)
Definition doc_ok (v : val) (d : jdoc) : Prop := doc_of v = Some d /\ jwfb d = true.

Definition pre_of (need : bool) (name : str) : str := if need then quoted name ++ [58] else [].

(* the three induction statements (see the comment on [depth] in Model/DumpVal.v) *)
Definition elem_at (n : nat) : Prop :=            (* HandleDumpStruct(elem, true) *)
  forall v, ok_val v = true -> (depth v <= n)%nat ->
            exists d, doc_ok v d /\ handle n v true = Ok (jprint d).
Definition kv_at (n : nat) : Prop :=              (* loopHandleKV *)
  forall v, ok_val v = true -> (depth v <= n + 1)%nat ->
            exists d, doc_ok v d /\
                      forall name t need, (str_eqb name TIME_NAME && t) = false ->
                                          loop_kv n name t v need = Ok (pre_of need name ++ jprint d).
Definition top_at (n : nat) : Prop :=             (* HandleDumpStruct(v) *)
  forall v, ok_val v = true -> top_shape v = true -> (depth v <= n + 2)%nat ->
            exists d, doc_ok v d /\ handle n v false = Ok (jprint d).

(* ---- dump.go:118-127, the slice loop ---- *)
Lemma elems_ok n (H1 : elem_at n) : forall vs len i,
  forallb ok_val vs = true -> Forall (fun x => (depth x <= n)%nat) vs -> (i + length vs = len)%nat ->
  exists ds, docs_of doc_of vs = Some ds /\ forallb jwfb ds = true /\
             elems_from (handle n) len i vs = Ok (print_elems jprint ds).
Proof.
  induction vs as [|x rest IH]; intros len i Hok Hd Hlen.
  - exists []. repeat split; reflexivity.
  - cbn [forallb] in Hok. apply andb_prop in Hok as [Hx Hr].
    inversion Hd as [|? ? Hdx Hdr]; subst.
    destruct (H1 x Hx Hdx) as (d & [Hdoc Hwf] & Hrun).
    destruct (IH (i + length (x :: rest))%nat (S i) Hr Hdr) as (ds & Hds & Hwfs & Hruns); [cbn [length]; lia|].
    cbn [docs_of elems_from]. rewrite Hdoc, Hds.
    exists (d :: ds). split; [reflexivity|]. split; [cbn [forallb]; now rewrite Hwf, Hwfs|].
    nrm. rewrite Hrun. cbn [bind]. rewrite Hruns. cbn [bind print_elems].
    destruct rest as [|y rest'].
    + cbn [docs_of] in Hds. inversion Hds; subst ds.
      replace (Z.of_nat i <? Z.of_nat (i + length [x]) - 1)%Z with false
        by (symmetry; apply Z.ltb_ge; cbn [length]; lia).
      cbn [print_elems app]. reflexivity.
    + cbn [docs_of] in Hds. destruct (doc_of y); [|discriminate].
      destruct (docs_of doc_of rest'); [|discriminate]. inversion Hds; subst ds.
      replace (Z.of_nat i <? Z.of_nat (i + length (x :: y :: rest')) - 1)%Z with true
        by (symmetry; apply Z.ltb_lt; cbn [length]; lia).
      cbn [app]. reflexivity.
Qed.

(* ---- dump.go:128-150, the map loop ---- *)
Lemma key_text k dk (Hk : key_ok k = true) (Hdoc : doc_of k = Some dk) :
  exists ks, key_of k = Some ks /\ str_plain ks = true /\
             (if is_str_kind k then [] else [DQ]) ++ jprint dk ++ (if is_str_kind k then [] else [DQ]) = jquote ks.
Proof.
  destruct k; cbn [key_ok] in Hk; try discriminate; cbn [doc_of] in Hdoc; inversion Hdoc; subst dk;
    cbn [key_of is_str_kind jprint].
  - exists (itoa z). split; [reflexivity|]. split; [apply itoa_plain|]. reflexivity.
  - exists (utoa n). split; [reflexivity|]. split; [apply utoa_plain|]. reflexivity.
  - exists s. split; [reflexivity|]. split; [exact Hk|]. cbn [app]. now rewrite app_nil_r.
Qed.

Lemma entries_ok n (H2 : kv_at n) : forall es len i,
  forallb (fun e => key_ok (fst e) && ok_val (snd e)) es = true ->
  Forall (fun e => (depth (fst e) <= n + 1)%nat /\ (depth (snd e) <= n + 1)%nat) es ->
  (i + length es = len)%nat ->
  exists ms, entries_of doc_of es = Some ms /\
             forallb (fun kv => str_plain (fst kv) && jwfb (snd kv)) ms = true /\
             entries_from (loop_kv n) len i es = Ok (print_members jprint ms).
Proof.
  induction es as [|[k x] rest IH]; intros len i Hok Hd Hlen.
  - exists []. repeat split; reflexivity.
  - cbn [forallb fst snd] in Hok. apply andb_prop in Hok as [Hkx Hr]. apply andb_prop in Hkx as [Hk Hx].
    inversion Hd as [|? ? [Hdk Hdx] Hdr]; subst. cbn [fst snd] in Hdk, Hdx.
    destruct (H2 k (key_ok_val _ Hk) Hdk) as (dk & [Hdock _] & Hrunk).
    destruct (H2 x Hx Hdx) as (d & [Hdoc Hwf] & Hrun).
    destruct (key_text k dk Hk Hdock) as (ks & Hks & Hplain & Htext).
    destruct (IH (i + length ((k, x) :: rest))%nat (S i) Hr Hdr) as (ms & Hms & Hwfs & Hruns); [cbn [length]; lia|].
    cbn [entries_of entries_from]. rewrite Hks, Hdoc, Hms.
    exists ((ks, d) :: ms). split; [reflexivity|].
    split; [cbn [forallb fst snd]; now rewrite Hplain, Hwf, Hwfs|].
    pose proof (Hrunk [] false false eq_refl) as Hrk. pose proof (Hrun [] false false eq_refl) as Hrx.
    cbn [pre_of app] in Hrk, Hrx.
    nrm. rewrite Hrk. cbn [bind]. rewrite Hrx. cbn [bind]. rewrite Hruns. cbn [bind print_members].
    f_equal. rewrite <- Htext. rewrite <- !app_assoc. f_equal. f_equal. f_equal.
    cbn [app]. f_equal. f_equal.
    destruct rest as [|[k' y] rest'].
    + cbn [entries_of] in Hms. inversion Hms; subst ms.
      replace (Z.of_nat i <? Z.of_nat (i + length [(k, x)]) - 1)%Z with false
        by (symmetry; apply Z.ltb_ge; cbn [length]; lia).
      reflexivity.
    + cbn [entries_of] in Hms. destruct (key_of k'); [|discriminate]. destruct (doc_of y); [|discriminate].
      destruct (entries_of doc_of rest'); [|discriminate]. inversion Hms; subst ms.
      replace (Z.of_nat i <? Z.of_nat (i + length ((k, x) :: (k', y) :: rest')) - 1)%Z with true
        by (symmetry; apply Z.ltb_lt; cbn [length]; lia).
      reflexivity.
Qed.

(* ---- dump.go:56-67, the field loop from index 1 with its needAddComma flag ---- *)
Definition field_dom (f : finfo * val) : bool :=
  negb (fanon (fst f)) && negb (ftime (fst f))
  && Bool.eqb (fexported (fst f)) (ascii_capital_initial (fname (fst f)))
  && (if fexported (fst f) then str_plain (fname (fst f)) && ok_val (snd f) else true).

Definition lead (need : bool) (ms : list (str * jdoc)) : str :=
  match ms with [] => [] | _ => if need then [44] else [] end.

Lemma field_dom_inv sf fv : field_dom (sf, fv) = true ->
  ftime sf = false /\ is_exported (fname sf) = fexported sf /\
  (fexported sf = true -> str_plain (fname sf) = true /\ ok_val fv = true).
Proof.
  unfold field_dom. cbn [fst snd]. intros H.
  apply andb_prop in H as [H H4]. apply andb_prop in H as [H H3]. apply andb_prop in H as [_ H2].
  split; [now destruct (ftime sf)|]. split.
  - rewrite is_exported_spec. apply Bool.eqb_prop in H3. now rewrite H3.
  - intros He. rewrite He in H4. now apply andb_prop in H4.
Qed.

Lemma fields_ok n (H2 : kv_at n) : forall fs need,
  forallb field_dom fs = true -> Forall (fun f => (depth (snd f) <= n + 1)%nat) fs ->
  exists ms, members_of doc_of fs = Some ms /\
             forallb (fun kv => str_plain (fst kv) && jwfb (snd kv)) ms = true /\
             fields_from1 (loop_kv n) need fs = Ok (lead need ms ++ print_members jprint ms).
Proof.
  induction fs as [|[sf fv] rest IH]; intros need Hok Hd.
  - exists []. repeat split; reflexivity.
  - cbn [forallb] in Hok. apply andb_prop in Hok as [Hf Hr].
    inversion Hd as [|? ? Hdf Hdr]; subst. cbn [snd] in Hdf.
    destruct (field_dom_inv _ _ Hf) as (Ht & Hexp & Hin).
    cbn [members_of fields_from1]. rewrite Hexp.
    destruct (fexported sf) eqn:Ee; cbn [negb].
    + destruct (Hin eq_refl) as [Hname Hv].
      destruct (H2 fv Hv Hdf) as (d & [Hdoc Hwf] & Hrun).
      destruct (IH true Hr Hdr) as (ms & Hms & Hwfs & Hruns).
      rewrite Hdoc, Hms. exists ((fname sf, d) :: ms). split; [reflexivity|].
      split; [cbn [forallb fst snd]; now rewrite Hname, Hwf, Hwfs|].
      assert (Hnt : (str_eqb (fname sf) TIME_NAME && ftime sf) = false) by (rewrite Ht; apply andb_false_r).
      pose proof (Hrun (fname sf) (ftime sf) true Hnt) as Hr1. cbn [pre_of] in Hr1.
      nrm. rewrite Hr1. cbn [bind]. rewrite Hruns. cbn [bind print_members lead].
      f_equal. f_equal. unfold quoted, jquote, DQ. rewrite <- !app_assoc. cbn [app].
      f_equal. f_equal. f_equal. f_equal.
      destruct ms; reflexivity.
    + exact (IH need Hr Hdr).
Qed.

(* ---- dump.go:25-70 on a struct (directly or behind one pointer) ---- *)
Lemma struct_ok n (H2 : kv_at n) name fs :
  ok_val (VStruct name fs) = true -> Forall (fun f => (depth (snd f) <= n + 1)%nat) fs ->
  exists d, doc_ok (VStruct name fs) d /\
            forall sl, handle_body (loop_kv n) (VStruct name fs) sl = Ok (jprint d) /\
                       handle_body (loop_kv n) (VPtr (VStruct name fs)) sl = Ok (jprint d).
Proof.
  intros Hok Hd. cbn [ok_val] in Hok. change (forallb field_dom fs = true) in Hok.
  unfold doc_ok. cbn [doc_of].
  destruct fs as [|[sf0 fv0] rest].
  - exists (JObj []). split; [split; reflexivity|]. intros sl. split; reflexivity.
  - assert (Hok' := Hok). cbn [forallb] in Hok'. apply andb_prop in Hok' as [Hf Hr].
    inversion Hd as [|? ? Hdf Hdr]; subst. cbn [snd] in Hdf.
    destruct (field_dom_inv _ _ Hf) as (Ht & Hexp & Hin).
    assert (Hbody : forall sl, handle_body (loop_kv n) (VPtr (VStruct name ((sf0, fv0) :: rest))) sl
                               = handle_body (loop_kv n) (VStruct name ((sf0, fv0) :: rest)) sl) by reflexivity.
    cbn [members_of].
    destruct (fexported sf0) eqn:Ee.
    + destruct (Hin eq_refl) as [Hname Hv].
      destruct (H2 fv0 Hv Hdf) as (d & [Hdoc Hwf] & Hrun).
      destruct (fields_ok n H2 rest true Hr Hdr) as (ms & Hms & Hwfs & Hruns).
      rewrite Hdoc, Hms. exists (JObj ((fname sf0, d) :: ms)).
      split; [split; [reflexivity|cbn [jwfb forallb fst snd]; now rewrite Hname, Hwf, Hwfs]|].
      intros sl. rewrite Hbody.
      match goal with |- ?A /\ _ => cut A; [intros HA; split; exact HA|] end.
      unfold handle_body. cbn [indirect is_valid negb]. rewrite Hexp.
      assert (Hnt : (str_eqb (fname sf0) TIME_NAME && ftime sf0) = false) by (rewrite Ht; apply andb_false_r).
      pose proof (Hrun (fname sf0) (ftime sf0) true Hnt) as Hr1. cbn [pre_of] in Hr1.
      nrm. rewrite Hr1. cbn [bind fst snd]. rewrite Hruns. cbn [bind jprint print_members lead].
      destruct ms as [|m ms']; unfold quoted, jquote, DQ; cbn [lead print_members];
        rewrite <- ?app_assoc; cbn [app]; rewrite <- ?app_assoc; cbn [app]; reflexivity.
    + destruct (fields_ok n H2 rest false Hr Hdr) as (ms & Hms & Hwfs & Hruns).
      rewrite Hms. exists (JObj ms).
      split; [split; [reflexivity|exact Hwfs]|].
      intros sl. rewrite Hbody.
      match goal with |- ?A /\ _ => cut A; [intros HA; split; exact HA|] end.
      unfold handle_body. cbn [indirect is_valid negb]. rewrite Hexp.
      cbn [bind fst snd]. nrm. rewrite Hruns. cbn [bind jprint app].
      destruct ms; reflexivity.
Qed.

(* ---- the three statements step together ---- *)
Lemma ok_top v : ok_val v = true ->
  match v with VNilPtr | VPtr _ | VStruct _ _ => top_shape v = true | _ => True end.
Proof.
  destruct v; cbn [ok_val top_shape]; intros H; try exact I; try reflexivity.
  now apply andb_prop in H as [H _].
Qed.

Lemma kv_step n (H1 : elem_at n) (H2 : kv_at n) (H3 : top_at n) : kv_at (S n).
Proof.
  intros v Hok Hd.
  assert (Hvia_top : top_shape v = true -> exists d, doc_ok v d /\
            forall name t need, (str_eqb name TIME_NAME && t) = false ->
              (a <- handle n v false ;; Ok (pre_of need name ++ a)) = Ok (pre_of need name ++ jprint d)).
  { intros Hts. destruct (H3 v Hok Hts) as (d & Hdoc & Hrun); [lia|].
    exists d. split; [exact Hdoc|]. intros name t need _. nrm. rewrite Hrun. reflexivity. }
  destruct v as [|b|z|u|is32 repr|s| |x|bytes isnil vs|vs|isnil es|sname fs|inner|];
    cbn [ok_val] in Hok; try discriminate.
  - exists (JStr (if b then s2b "true" else s2b "false")).
    split; [split; [reflexivity|destruct b; reflexivity]|].
    intros name t need Hnt. cbn [loop_kv]. unfold kv_body. rewrite Hnt. reflexivity.
  - exists (JNum (itoa z)). split; [split; [reflexivity|apply jnum_ok_itoa]|].
    intros name t need Hnt. cbn [loop_kv]. unfold kv_body. rewrite Hnt. reflexivity.
  - exists (JNum (utoa u)). split; [split; [reflexivity|apply jnum_ok_utoa]|].
    intros name t need Hnt. cbn [loop_kv]. unfold kv_body. rewrite Hnt. reflexivity.
  - exists (JNum repr). split; [split; [reflexivity|exact Hok]|].
    intros name t need Hnt. cbn [loop_kv]. unfold kv_body. rewrite Hnt. reflexivity.
  - exists (JStr s). split; [split; [reflexivity|exact Hok]|].
    intros name t need Hnt. cbn [loop_kv]. unfold kv_body. rewrite Hnt. reflexivity.
  - destruct (Hvia_top eq_refl) as (d & Hdoc & Hrun). exists d. split; [exact Hdoc|].
    intros name t need Hnt. cbn [loop_kv]. unfold kv_body. rewrite Hnt. exact (Hrun name t need Hnt).
  - assert (Hts : top_shape (VPtr x) = true) by (cbn [top_shape]; now apply andb_prop in Hok as [Hs _]).
    destruct (Hvia_top Hts) as (d & Hdoc & Hrun). exists d. split; [exact Hdoc|].
    intros name t need Hnt. cbn [loop_kv]. unfold kv_body. rewrite Hnt. exact (Hrun name t need Hnt).
  - apply andb_prop in Hok as [Hb Hvs]. apply andb_prop in Hb as [Hb _].
    destruct bytes; [discriminate|]. cbn [depth] in Hd.
    destruct (elems_ok n H1 vs (length vs) 0%nat Hvs) as (ds & Hds & Hwf & Hrun);
      [apply depth_elems; lia|reflexivity|].
    exists (JArr ds). split; [split; [cbn [doc_of]; rewrite Hds; reflexivity|exact Hwf]|].
    intros name t need Hnt. cbn [loop_kv]. unfold kv_body. rewrite Hnt. nrm. rewrite Hrun. reflexivity.
  - cbn [depth] in Hd.
    destruct (elems_ok n H1 vs (length vs) 0%nat Hok) as (ds & Hds & Hwf & Hrun);
      [apply depth_elems; lia|reflexivity|].
    exists (JArr ds). split; [split; [cbn [doc_of]; rewrite Hds; reflexivity|exact Hwf]|].
    intros name t need Hnt. cbn [loop_kv]. unfold kv_body. rewrite Hnt. nrm. rewrite Hrun. reflexivity.
  - apply andb_prop in Hok as [_ Hes]. cbn [depth] in Hd.
    destruct (entries_ok n H2 es (length es) 0%nat Hes) as (ms & Hms & Hwf & Hrun);
      [apply depth_entries; lia|reflexivity|].
    exists (JObj ms). split; [split; [cbn [doc_of]; rewrite Hms; reflexivity|exact Hwf]|].
    intros name t need Hnt. cbn [loop_kv]. unfold kv_body. rewrite Hnt. nrm. rewrite Hrun. reflexivity.
  - destruct (Hvia_top eq_refl) as (d & Hdoc & Hrun). exists d. split; [exact Hdoc|].
    intros name t need Hnt. cbn [loop_kv]. unfold kv_body. rewrite Hnt. exact (Hrun name t need Hnt).
Qed.

Lemma handle_struct_like n (H2 : kv_at n) v sl :
  ok_val v = true -> top_shape v = true ->
  (match v with VPtr x => depth x | _ => depth v end <= n + 4)%nat ->
  exists d, doc_ok v d /\ handle (S n) v sl = Ok (jprint d).
Proof.
  intros Hok Hts Hd. cbn [handle].
  destruct v as [|b|z|u|is32 repr|s| |x|bytes isnil vs|vs|isnil es|sname fs|inner|];
    cbn [top_shape] in Hts; try discriminate.
  - exists JNull. split; [split; reflexivity|reflexivity].
  - destruct x as [| | | | | | | | | | |sname fs| |]; try discriminate.
    cbn [ok_val is_struct andb] in Hok. cbn [depth] in Hd.
    destruct (struct_ok n H2 sname fs Hok) as (d & Hdoc & Hrun); [apply depth_fields; lia|].
    exists d. split; [exact Hdoc|]. apply (Hrun sl).
  - cbn [depth] in Hd.
    destruct (struct_ok n H2 sname fs Hok) as (d & Hdoc & Hrun); [apply depth_fields; lia|].
    exists d. split; [exact Hdoc|]. apply (Hrun sl).
Qed.

Lemma top_step n (H2 : kv_at n) : top_at (S n).
Proof.
  intros v Hok Hts Hd. apply (handle_struct_like n H2); try assumption.
  destruct v; cbn [depth] in *; lia.
Qed.

Lemma elem_step n (H2 : kv_at n) : elem_at (S n).
Proof.
  intros v Hok Hd.
  assert (Hvia_kv : indirect v = v -> is_valid v = true -> is_struct v = false ->
                    exists d, doc_ok v d /\ handle (S n) v true = Ok (jprint d)).
  { intros Hi Hv Hs. destruct (H2 v Hok) as (d & Hdoc & Hrun); [lia|].
    exists d. split; [exact Hdoc|]. cbn [handle]. unfold handle_body. rewrite Hi, Hv. cbn [negb].
    pose proof (Hrun [] false false eq_refl) as Hr. cbn [pre_of app] in Hr.
    destruct v; try discriminate; nrm; exact Hr. }
  destruct v as [|b|z|u|is32 repr|s| |x|bytes isnil vs|vs|isnil es|sname fs|inner|];
    try (apply Hvia_kv; reflexivity); try (cbn [ok_val] in Hok; discriminate).
  - apply (handle_struct_like n H2); [assumption|reflexivity|cbn [depth]; lia].
  - apply (handle_struct_like n H2); [assumption| |cbn [depth] in *; lia].
    cbn [ok_val] in Hok. cbn [top_shape]. now apply andb_prop in Hok as [Hs _].
  - apply (handle_struct_like n H2); [assumption|reflexivity|cbn [depth] in *; lia].
Qed.

Theorem all_at : forall n, elem_at n /\ kv_at n /\ top_at n.
Proof.
  induction n as [|n (H1 & H2 & H3)].
  - repeat split; intros v Hok; intros; pose proof (depth_ge3 v); lia.
  - split; [exact (elem_step n H2)|]. split; [exact (kv_step n H1 H2 H3)|exact (top_step n H2)].
Qed.

(* ================= C20 ================= *)

Lemma dumpable_inv v : dumpable v = true -> top_shape v = true /\ ok_val v = true.
Proof. unfold dumpable. intros H. now apply andb_prop in H. Qed.

(* on the property's domain the value has a document, the dumper prints exactly that document
   (compactly), the document is well-formed *)
Theorem dump_is_doc_ex v fuel : dumpable v = true -> (depth v < fuel)%nat ->
  exists d, doc_of v = Some d /\ jwfb d = true /\ dump fuel v = Ok (jprint d).
Proof.
  intros Hdom Hfuel. destruct (dumpable_inv v Hdom) as [Hts Hok].
  destruct (all_at fuel) as (_ & _ & H3).
  destruct (H3 v Hok Hts) as (d & [Hdoc Hwf] & Hrun); [lia|].
  exists d. repeat split; assumption.
Qed.

Theorem dump_is_doc v fuel d : dumpable v = true -> (depth v < fuel)%nat -> doc_of v = Some d ->
  dump fuel v = Ok (jprint d).
Proof.
  intros Hdom Hfuel Hdoc. destruct (dump_is_doc_ex v fuel Hdom Hfuel) as (d' & Hdoc' & _ & Hrun).
  congruence.
Qed.

Theorem dumpable_has_doc v : dumpable v = true -> exists d, doc_of v = Some d /\ jwfb d = true.
Proof.
  intros Hdom. destruct (dump_is_doc_ex v (S (depth v)) Hdom (Nat.lt_succ_diag_r _)) as (d & Hdoc & Hwf & _).
  exists d. split; assumption.
Qed.

(* hence the dump is RFC 8259 JSON, and parsing it gives back the document of the specification *)
Theorem dump_wellformed v fuel : dumpable v = true -> (depth v < fuel)%nat ->
  exists d out, doc_of v = Some d /\ dump fuel v = Ok out /\ jparse out = Some d /\ jvalidb out = true.
Proof.
  intros Hdom Hfuel. destruct (dump_is_doc_ex v fuel Hdom Hfuel) as (d & Hdoc & Hwf & Hrun).
  exists d, (jprint d). repeat split; [exact Hdoc|exact Hrun|apply jparse_jprint; exact Hwf|apply jvalidb_jprint; exact Hwf].
Qed.

(* the fuel the runner passes is enough *)
Corollary dump_never_out_of_fuel v : dumpable v = true ->
  exists d, doc_of v = Some d /\ dump (S (depth v)) v = Ok (jprint d).
Proof.
  intros Hdom. destruct (dump_is_doc_ex v (S (depth v)) Hdom (Nat.lt_succ_diag_r _)) as (d & Hdoc & _ & Hrun).
  exists d. split; assumption.
Qed.

(* ================= why the domain excludes []byte and non-ASCII capital initials ================= *)
(* struct{ B []byte }{B: []byte{1,2}}: the standard encoder writes {"B":"AQI="}, the dumper {"B":[1,2]} *)
Definition byte_slice_witness : val :=
  VStruct (s2b "T") [(mkf (s2b "B") true false false, VSlice true false [VUint 1; VUint 2])].

Lemma byte_slice_differs :
  doc_of byte_slice_witness = Some (JObj [(s2b "B", JStr (s2b "AQI="))]) /\
  dump (S (depth byte_slice_witness)) byte_slice_witness = Ok (s2b "{""B"":[1,2]}").
Proof. split; vm_compute; reflexivity. Qed.

(* struct{ Äb int }{3}: the field is exported (Go, encoding/json) but IsExported looks at the first
   byte only (0xC3), so the dumper omits it *)
Definition nonascii_field_witness : val :=
  VStruct (s2b "T") [(mkf [195; 132; 98] true false false, VInt 3)].

Lemma nonascii_field_differs :
  doc_of nonascii_field_witness = Some (JObj [([195; 132; 98], JNum (s2b "3"))]) /\
  dump (S (depth nonascii_field_witness)) nonascii_field_witness = Ok (s2b "{}").
Proof. split; vm_compute; reflexivity. Qed.
