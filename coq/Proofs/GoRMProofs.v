(* GoRMProofs.v — the bodies of RM.Set and RM.Get (valid/rule.go) extracted from /repo compute the model's rm_set and
   rm_get, for every rule map, every field-name text and every list of rules. *)
From Coq Require Import String.
From PGV Require Import Base.Bytes Base.GoStr Base.Utf8 Base.MiniGo Extracted.SourceConst Extracted.SourceFnsGen.
From PGV Require Import Model.RuleText Model.GoParse Proofs.GoRangeProofs.
Open Scope Z_scope.

Lemma len_ne0 n : (Z.of_nat (S n) =? 0) = false.
Proof. apply Z.eqb_neq. lia. Qed.

(* ---------- RM.Get and RM.Set (valid/rule.go) ---------- *)
Ltac rstep :=
  lazy beta iota zeta delta
    [run_rm_get run_rm_set pexec pexec_list peval pset pempty fn_body fn_RM_Get fn_RM_Set
     String.eqb Ascii.eqb Bool.eqb andb orb negb];
  cbn [List.length str_eqb].

Theorem rm_get_from_source r field : run_rm_get fn_RM_Get r field = Some (rm_get r field).
Proof.
  destruct r as [|[k v] r']; destruct field as [|c field]; rstep; rewrite ?len_ne0; rstep; reflexivity.
Qed.

Definition PinvRM (r0 : rm) (parts rules : list str) (k : nat) (e : penv) : Prop :=
  e "r"%string = PM (fold_left (fun acc f => rm_set1 acc f rules) (firstn k parts) r0) /\
  e "rules"%string = PL rules.

Theorem rm_set_from_source r fields rules : run_rm_set fn_RM_Set r fields rules = Some (rm_set r fields rules).
Proof.
  rstep.
  match goal with |- context[range_loop ?l 0 ?b ?e] =>
    destruct (range_inv b (PinvRM r l rules) l 0%nat e) as (e' & He' & HP') end.
  - split; reflexivity.
  - intros j c e0 Hn (Hr & Hrules). cbn [Nat.add] in *.
    repeat (rstep; rewrite ?Hr, ?Hrules).
    set (m := fold_left _ (firstn j _) r) in *.
    assert (Hnext : fold_left (fun acc f => rm_set1 acc f rules) (firstn (S j) (split1 44%N [] fields)) r = rm_set1 m c rules)
      by (rewrite (firstn_snoc _ j c Hn), fold_left_app; reflexivity).
    destruct (rm_get_raw m c) as [old|] eqn:Eold; repeat (rstep; rewrite ?Hr, ?Hrules, ?Eold);
      eexists; (split; [first [left; reflexivity | right; reflexivity]|]); split;
      lazy beta iota zeta delta [String.eqb Ascii.eqb Bool.eqb]; try assumption; rewrite Hnext; unfold rm_set1; rewrite Eold; reflexivity.
  - change (Z.of_nat 0) with 0 in He'. rewrite He'. destruct HP' as (Hr' & _). rstep. rewrite Hr'.
    cbn [Nat.add]. rewrite firstn_all. reflexivity.
Qed.
