(* Proofs about the validators of Model/Walk.v: totality (C13), the error buffer is append-only
   and every rule is evaluated (C02), zero values are skipped and required is exactly
   "empty" (C03), un-marked sub-objects are never entered and clause paths extend the path of the
   object they were found in (C04), rule-set scoping and function resolution (C16), groups (C17),
   entry-point independence (C18). *)
From PGV Require Import Base.Bytes Base.GoStr Base.GoNum Base.Utf8 Base.Url.
From PGV Require Import Extracted.SourceConst Extracted.SourceTable.
From PGV Require Import Model.RuleText Model.Value Model.Clause Model.Rules Model.Walk.
From PGV Require Import Proofs.RuleContract.

(* ------------------------------------------------------------------ *)
(* values the harness can build: the invalid Value never occurs inside  *)
(* ------------------------------------------------------------------ *)
Fixpoint wf_val (v : val) : bool :=
  match v with
  | VInvalid => false
  | VPtr v' => wf_val v'
  | VSlice _ _ _ vs | VArray _ _ vs =>
    (fix all (l : list val) : bool := match l with [] => true | x :: r => wf_val x && all r end) vs
  | VMap _ _ _ es =>
    (fix alle (l : list (val * val)) : bool :=
       match l with [] => true | (k, x) :: r => wf_val k && wf_val x && alle r end) es
  | VStruct _ fs =>
    (fix allf (l : list (finfo * val)) : bool :=
       match l with [] => true | (_, x) :: r => wf_val x && allf r end) fs
  | VIface (Some v') => wf_val v'
  | _ => true
  end.

Lemma wf_elems b k t vs x : wf_val (VSlice b k t vs) = true -> In x vs -> wf_val x = true /\ (depth x < depth (VSlice b k t vs))%nat.
Proof.
  cbn [wf_val depth]. induction vs as [|y vs IH]; intros H Hin; [destruct Hin|].
  apply andb_prop in H as [Hy Hr]. destruct Hin as [->|Hin].
  - split; [exact Hy|]. cbn. lia.
  - destruct (IH Hr Hin) as [Hw Hd]. split; [exact Hw|]. cbn in *. lia.
Qed.
Lemma wf_aelems k t vs x : wf_val (VArray k t vs) = true -> In x vs -> wf_val x = true /\ (depth x < depth (VArray k t vs))%nat.
Proof.
  cbn [wf_val depth]. induction vs as [|y vs IH]; intros H Hin; [destruct Hin|].
  apply andb_prop in H as [Hy Hr]. destruct Hin as [->|Hin].
  - split; [exact Hy|]. cbn. lia.
  - destruct (IH Hr Hin) as [Hw Hd]. split; [exact Hw|]. cbn in *. lia.
Qed.
Lemma wf_entries b k t es kx x : wf_val (VMap b k t es) = true -> In (kx, x) es ->
  wf_val x = true /\ (depth x < depth (VMap b k t es))%nat.
Proof.
  cbn [wf_val depth]. induction es as [|[k0 y] es IH]; intros H Hin; [destruct Hin|].
  apply andb_prop in H as [Hy Hr]. apply andb_prop in Hy as [Hk Hy]. destruct Hin as [E|Hin].
  - inversion E; subst. split; [exact Hy|]. cbn. lia.
  - destruct (IH Hr Hin) as [Hw Hd]. split; [exact Hw|]. cbn in *. lia.
Qed.
Lemma wf_fields si fs fi x : wf_val (VStruct si fs) = true -> In (fi, x) fs ->
  wf_val x = true /\ (depth x < depth (VStruct si fs))%nat.
Proof.
  cbn [wf_val depth]. induction fs as [|[f0 y] fs IH]; intros H Hin; [destruct Hin|].
  apply andb_prop in H as [Hy Hr]. destruct Hin as [E|Hin].
  - inversion E; subst. split; [exact Hy|]. cbn. lia.
  - destruct (IH Hr Hin) as [Hw Hd]. split; [exact Hw|]. cbn in *. lia.
Qed.

(* ------------------------------------------------------------------ *)
(* IsZero never panics on such values                                   *)
(* ------------------------------------------------------------------ *)
Lemma is_zero_fuel_total fuel : forall v, wf_val v = true -> (depth v < fuel)%nat ->
  exists b, is_zero_fuel fuel v = Ok b.
Proof.
  induction fuel as [|f IH]; intros v Hw Hd; [lia|].
  assert (Hall : forall l, (forall x, In x l -> wf_val x = true /\ (depth x < f)%nat) ->
     exists b, (fix all (l : list val) : res bool :=
                  match l with
                  | [] => Ok true
                  | x :: r => b <- is_zero_fuel f x ;; if b then all r else Ok false
                  end) l = Ok b).
  { induction l as [|x l IHl]; intros H; [eauto|].
    destruct (H x (or_introl eq_refl)) as [Hx Hdx]. destruct (IH x Hx Hdx) as [bx Ex]. rewrite Ex. cbn.
    destruct bx; [|eauto]. apply IHl. intros y Hy. apply H. now right. }
  destruct v; cbn [is_zero_fuel]; try discriminate; eauto.
  - (* array *) apply Hall. intros x Hx. destruct (wf_aelems _ _ _ x Hw Hx). split; [assumption|lia].
  - (* struct *) apply Hall. intros x Hx. apply in_map_iff in Hx as ([fi y] & <- & Hin).
    destruct (wf_fields _ _ fi y Hw Hin). split; [assumption|cbn; lia].
Qed.

Lemma is_zero_total v : wf_val v = true -> exists b, is_zero v = Ok b.
Proof. intros H. apply is_zero_fuel_total; [exact H|lia]. Qed.

(* ------------------------------------------------------------------ *)
(* the buffer only grows                                                *)
(* ------------------------------------------------------------------ *)
Definition extends (b b' : buf) : Prop :=
  (exists cs, b_cl b' = cs ++ b_cl b) /\ (exists gs, b_gr b' = gs ++ b_gr b).

Lemma extends_refl b : extends b b.
Proof. split; exists []; reflexivity. Qed.
Lemma extends_trans a b c : extends a b -> extends b c -> extends a c.
Proof.
  intros [[c1 H1] [g1 G1]] [[c2 H2] [g2 G2]]. split.
  - exists (c2 ++ c1). now rewrite H2, H1, app_assoc.
  - exists (g2 ++ g1). now rewrite G2, G1, app_assoc.
Qed.
Lemma extends_put b cs : extends b (put b cs).
Proof. split; [exists (rev cs); cbn; now rewrite rev_append_rev|exists []; reflexivity]. Qed.
Lemma extends_put_group b m : extends b (put_group b m).
Proof. split; [exists []; reflexivity|exists [m]; reflexivity]. Qed.

(* a step that is total, only appends, and whose new clauses / group members satisfy Q / G *)
Definition goodP (Q : clause -> Prop) (G : gmember -> Prop) (step : buf -> res buf) : Prop :=
  forall b, exists b', step b = Ok b' /\
    exists cs gs, b_cl b' = cs ++ b_cl b /\ b_gr b' = gs ++ b_gr b /\ Forall Q cs /\ Forall G gs.
Definition good := goodP (fun _ => True) (fun _ => True).

Lemma goodP_extends (Q : clause -> Prop) (G : gmember -> Prop) step : goodP Q G step -> forall b, exists b', step b = Ok b' /\ extends b b'.
Proof.
  intros H b. destruct (H b) as (b' & E & cs & gs & Hc & Hg & _). exists b'. split; [exact E|].
  split; [exists cs|exists gs]; assumption.
Qed.

Lemma goodP_id (Q : clause -> Prop) (G : gmember -> Prop) : goodP Q G (fun b => Ok b).
Proof. intros b. exists b. split; [reflexivity|]. exists [], []. repeat split; constructor. Qed.

Lemma goodP_put (Q : clause -> Prop) (G : gmember -> Prop) cs : Forall Q cs -> goodP Q G (fun b => Ok (put b cs)).
Proof.
  intros H b. eexists. split; [reflexivity|]. exists (rev cs), []. cbn. rewrite rev_append_rev.
  repeat split; [now apply Forall_rev|constructor].
Qed.

Lemma goodP_group (Q : clause -> Prop) (G : gmember -> Prop) m : G m -> goodP Q G (fun b => Ok (put_group b m)).
Proof. intros H b. eexists. split; [reflexivity|]. exists [], [m]. repeat split; constructor; auto. Qed.

Lemma goodP_bind (Q : clause -> Prop) (G : gmember -> Prop) (s1 s2 : buf -> res buf) : goodP Q G s1 -> goodP Q G s2 -> goodP Q G (fun b => b1 <- s1 b ;; s2 b1).
Proof.
  intros H1 H2 b. destruct (H1 b) as (b1 & E1 & c1 & g1 & Hc1 & Hg1 & Q1 & G1).
  destruct (H2 b1) as (b2 & E2 & c2 & g2 & Hc2 & Hg2 & Q2 & G2).
  exists b2. rewrite E1. cbn. split; [exact E2|]. exists (c2 ++ c1), (g2 ++ g1).
  rewrite Hc2, Hc1, Hg2, Hg1, !app_assoc. repeat split; apply Forall_app; auto.
Qed.

Lemma goodP_weaken (Q Q' : clause -> Prop) (G G' : gmember -> Prop) step :
  (forall c, Q c -> Q' c) -> (forall m, G m -> G' m) -> goodP Q G step -> goodP Q' G' step.
Proof.
  intros HQ HG H b. destruct (H b) as (b' & E & cs & gs & Hc & Hg & Q1 & G1).
  exists b'. split; [exact E|]. exists cs, gs. repeat split; auto; eapply Forall_impl; eauto.
Qed.

(* the clause / group member belongs to an object whose path extends sn *)
Definition under (sn : str) (c : clause) : Prop :=
  match clause_names c with Some (o, _) => has_prefix o sn = true | None => True end.
Definition gunder (sn : str) (m : gmember) : Prop := has_prefix (g_obj m) sn = true.

Lemma has_prefix_refl s : has_prefix s s = true.
Proof. induction s as [|c s IH]; cbn; [reflexivity|]. now rewrite N.eqb_refl, IH. Qed.
Lemma has_prefix_app_l o sn ext : has_prefix o (sn ++ ext) = true -> has_prefix o sn = true.
Proof.
  revert o; induction sn as [|c sn IH]; intros o H; [destruct o; reflexivity|].
  destruct o as [|x o]; cbn in *; [discriminate|]. apply andb_prop in H as [H1 H2]. rewrite H1. cbn. now apply IH.
Qed.
Lemma under_mono sn ext c : under (sn ++ ext) c -> under sn c.
Proof. unfold under. destruct (clause_names c) as [[o f]|]; [apply has_prefix_app_l|auto]. Qed.
Lemma gunder_mono sn ext m : gunder (sn ++ ext) m -> gunder sn m.
Proof. apply has_prefix_app_l. Qed.
Lemma under_names sn f c : clause_names c = Some (sn, f) -> under sn c.
Proof. unfold under. intros ->. apply has_prefix_refl. Qed.

Section Totality.
  Variable c : cfg.
  Variable f : nat.
  Variable rec : str -> val -> bool -> buf -> res buf.
  Hypothesis Hrec : forall sn v g, wf_val v = true -> (depth v < f)%nat -> goodP (under sn) (gunder sn) (rec sn v g).

  Lemma rec_under sn ext v g : wf_val v = true -> (depth v < f)%nat -> goodP (under sn) (gunder sn) (rec (sn ++ ext) v g).
  Proof.
    intros Hw Hd. eapply goodP_weaken; [apply under_mono|apply gunder_mono|]. now apply Hrec.
  Qed.

  Lemma on_elems_good sn ext vs : forall i, (forall x, In x vs -> wf_val x = true /\ (depth x < f)%nat) ->
    goodP (under sn) (gunder sn) (on_elems rec (sn ++ ext) i vs).
  Proof.
    induction vs as [|x vs IH]; intros i H; cbn [on_elems].
    - apply goodP_id.
    - apply goodP_bind.
      + destruct (H x (or_introl eq_refl)). unfold idx_path. rewrite <- app_assoc. now apply rec_under.
      + apply IH. intros y Hy. apply H. now right.
  Qed.

  Lemma on_entries_good sn ext es : (forall k x, In (k, x) es -> wf_val x = true /\ (depth x < f)%nat) ->
    goodP (under sn) (gunder sn) (on_entries rec (sn ++ ext) es).
  Proof.
    induction es as [|[k x] es IH]; intros H; cbn [on_entries].
    - apply goodP_id.
    - apply goodP_bind.
      + destruct (H k x (or_introl eq_refl)). unfold key_path. rewrite <- app_assoc. now apply rec_under.
      + apply IH. intros k' y Hy. eapply H. right. exact Hy.
  Qed.

  Lemma exist_good ivk sn field cus tv : wf_val tv = true -> (depth tv < f)%nat ->
    goodP (under sn) (gunder sn) (exist rec ivk sn field cus tv).
  Proof.
    intros Hw Hd b. unfold exist. destruct (is_zero_total tv Hw) as [z Ez]. rewrite Ez. cbn.
    destruct z; [apply goodP_id|].
    assert (Hns : goodP (under sn) (gunder sn)
                    (fun b => Ok (if ivk then put b [CValid sn field (value_string tv) (req_body cus Exist)] else b))).
    { destruct ivk; [apply goodP_put; constructor; [eapply under_names; reflexivity|constructor]|apply goodP_id]. }
    destruct tv; try (apply Hns); try discriminate.
    - (* pointer *)
      destruct (remove_ptr (VPtr tv)) eqn:Er; try (apply Hns);
        apply (rec_under sn (DOT :: field) (VPtr tv) false Hw Hd b).
    - (* slice *) apply (on_elems_good sn (DOT :: field)). intros x Hx. destruct (wf_elems _ _ _ _ x Hw Hx). split; [assumption|lia].
    - (* array *) apply (on_elems_good sn (DOT :: field)). intros x Hx. destruct (wf_aelems _ _ _ x Hw Hx). split; [assumption|lia].
    - (* map *) apply (on_entries_good sn (DOT :: field)). intros k x Hx. destruct (wf_entries _ _ _ _ k x Hw Hx). split; [assumption|lia].
    - (* struct *) cbn [remove_ptr]. apply (rec_under sn (DOT :: field) (VStruct si fields) false Hw Hd b).
    - (* time *) apply goodP_id.
  Qed.

  Lemma required_good sn field cus tv : wf_val tv = true -> (depth tv < f)%nat ->
    goodP (under sn) (gunder sn) (required rec sn field cus tv).
  Proof.
    intros Hw Hd b. unfold required. destruct (is_zero_total tv Hw) as [z Ez]. rewrite Ez. cbn.
    match goal with |- context[if ?x || z then _ else _] => destruct (x || z) end.
    - apply (goodP_put _ _ [CValid sn field [] (req_body cus Required)]). constructor; [eapply under_names; reflexivity|constructor].
    - apply exist_good; assumption.
  Qed.

  Lemma on_rule_good sn fname fv vn : wf_val fv = true -> (depth fv < f)%nat ->
    goodP (under sn) (gunder sn) (on_rule c rec sn fname fv vn).
  Proof.
    intros Hw Hd b. unfold on_rule. destruct vn as [|x vn']; [apply goodP_id|].
    set (vn := x :: vn').
    destruct (get_fn c (pk_key vn)) as [| |fn|t] eqn:Eg.
    - apply (goodP_put _ _ [CField sn fname _]). constructor; [eapply under_names; reflexivity|constructor].
    - destruct (str_eqb (pk_key vn) Required); [now apply required_good|].
      destruct (str_eqb (pk_key vn) Exist); [now apply exist_good|].
      destruct (str_eqb (pk_key vn) Either || str_eqb (pk_key vn) BothEq).
      + apply goodP_group. unfold gunder. cbn. apply has_prefix_refl.
      + apply goodP_id.
    - destruct (is_zero_total fv Hw) as [z Ez]. rewrite Ez. cbn.
      destruct z; [apply goodP_id|]. apply goodP_put.
      assert (Hc : contract fn).
      { unfold get_fn in Eg. destruct (lookup1 _ (c_local c)) as [[|]|]; try discriminate.
        destruct (lookup1 _ (c_global c)) as [[|]|]; try discriminate.
        destruct (lookup1 _ rule_table) as [[fname'|]|]; try discriminate.
        destruct (fn_by_name (c_orc c) fname') eqn:Ef; inversion Eg; subst. eapply table_contract; eassumption. }
      apply Forall_forall. intros cl Hin. destruct (Hc vn sn fname fv) as (_ & Hn & _).
      eapply under_names. now apply Hn.
    - destruct (is_zero_total fv Hw) as [z Ez]. rewrite Ez. cbn.
      destruct z; [apply goodP_id|]. apply goodP_put. constructor; [eapply under_names; reflexivity|constructor].
  Qed.

  Lemma on_rules_good sn fname fv vns : wf_val fv = true -> (depth fv < f)%nat ->
    goodP (under sn) (gunder sn) (on_rules c rec sn fname fv vns).
  Proof.
    intros Hw Hd. induction vns as [|vn vns IH]; cbn [on_rules].
    - apply goodP_id.
    - apply goodP_bind; [now apply on_rule_good|exact IH].
  Qed.

  Lemma on_fields_good sn cus fs : (forall fi x, In (fi, x) fs -> wf_val x = true /\ (depth x < f)%nat) ->
    goodP (under sn) (gunder sn) (on_fields c rec sn cus fs).
  Proof.
    induction fs as [|[fi fv] fs IH]; intros H; cbn [on_fields].
    - apply goodP_id.
    - apply goodP_bind.
      + destruct (H fi fv (or_introl eq_refl)) as [Hw Hd].
        destruct (f_time fi || negb (is_exported (f_name fi))); [apply goodP_id|].
        destruct (match rm_get cus (f_name fi) with [] => tag_get (f_tags fi) (c_tag c) | _ :: _ => rm_get cus (f_name fi) end);
          [apply goodP_id|now apply on_rules_good].
      + apply IH. intros fi' y Hy. eapply H. right. exact Hy.
  Qed.

  Lemma remove_ptr_wf v : wf_val v = true -> (remove_ptr v = VInvalid \/ (wf_val (remove_ptr v) = true /\ (depth (remove_ptr v) <= depth v)%nat)).
  Proof.
    induction v; cbn; intros H; try (right; split; [exact H|lia]); try (left; reflexivity).
    destruct (IHv H) as [E|[Hw Hd]]; [now left|right]. split; [exact Hw|lia].
  Qed.

  Lemma under_nil c0 : under [] c0.
  Proof. unfold under. destruct (clause_names c0) as [[o f0]|]; [destruct o; reflexivity|exact I]. Qed.
  Lemma gunder_nil m : gunder [] m.
  Proof. unfold gunder. destruct (g_obj m); reflexivity. Qed.

  Lemma validate_body_good sn value gather : wf_val value = true -> (depth value < S f)%nat ->
    goodP (under sn) (gunder sn) (validate_body c rec sn value gather).
  Proof.
    intros Hw Hd. unfold validate_body.
    destruct (remove_ptr_wf value Hw) as [E|[Hw' Hd']].
    - rewrite E. apply goodP_id.
    - destruct (remove_ptr value) eqn:Er;
        try (destruct gather; [apply goodP_id|apply goodP_put; constructor; [eapply under_names; reflexivity|constructor]]);
        try discriminate; try apply goodP_id.
      (* struct *)
      assert (Hf : forall fi x, In (fi, x) fields -> wf_val x = true /\ (depth x < f)%nat).
      { intros fi x Hx. destruct (wf_fields _ _ fi x Hw' Hx). split; [assumption|lia]. }
      destruct sn as [|s0 sn0].
      + eapply goodP_weaken; [intros ? _; apply under_nil|intros ? _; apply gunder_nil|].
        apply (on_fields_good (s_name si)). exact Hf.
      + apply on_fields_good. exact Hf.
  Qed.
End Totality.

Theorem validate_good c fuel : forall sn v g, wf_val v = true -> (depth v < fuel)%nat ->
  goodP (under sn) (gunder sn) (validate c fuel sn v g).
Proof.
  induction fuel as [|f IH]; intros sn v g Hw Hd; [lia|].
  cbn [validate]. apply (validate_body_good c f (validate c f) IH sn v g Hw Hd).
Qed.

(* ------------------------------------------------------------------ *)
(* C13: every entry point returns normally                              *)
(* ------------------------------------------------------------------ *)
Definition wf_src (src : option val) : bool := match src with Some v => wf_val v | None => true end.

Lemma strip_top_wf v rv : wf_val v = true -> strip_top v = inl rv -> wf_val rv = true /\ (depth rv <= depth v)%nat.
Proof.
  induction v; cbn; intros H E; inversion E; subst; try (split; [exact H|cbn; lia]).
  destruct (IHv H H1) as [Hw Hd]. split; [exact Hw|lia].
Qed.

Theorem struct_valid_total c src : wf_src src = true ->
  exists o, struct_valid c (S (S (match src with Some v => depth v | None => O end))) src = Ok o.
Proof.
  destruct src as [v|]; [|intros _; cbn; eauto]. intros Hw. cbn [wf_src] in Hw. unfold struct_valid.
  destruct (strip_top v) as [rv|t] eqn:Es; [|eauto].
  destruct (strip_top_wf v rv Hw Es) as [Hrw Hrd].
  set (fuel := S (S (depth v))).
  assert (Hg : forall sn x g, wf_val x = true -> (depth x < fuel)%nat -> goodP (under sn) (gunder sn) (validate c fuel sn x g))
    by (intros; now apply validate_good).
  assert (Hb : exists b, match rv with
           | VSlice _ _ et vs | VArray _ et vs => on_elems (validate c fuel) et O vs empty_buf
           | VMap _ _ _ es => on_entries (validate c fuel) (s2b "map") es empty_buf
           | _ => validate c fuel [] rv false empty_buf
           end = Ok b).
  { destruct rv as [|b0|w z|w n|i32 fv r1 r2|s0|t0|v0|isnil ek etstr vs|ek etstr vs|isnil kk tstr entries|si fields|inner|tz|t0];
      try solve [destruct (Hg [] _ false Hrw ltac:(unfold fuel; lia) empty_buf) as (b & E & _); eauto].
    - assert (He : forall x, In x vs -> wf_val x = true /\ (depth x < fuel)%nat).
      { intros x Hx. destruct (wf_elems _ _ _ _ x Hrw Hx). split; [assumption|unfold fuel; lia]. }
      destruct (on_elems_good fuel (validate c fuel) Hg [] etstr vs O He empty_buf) as (b1 & E & _). eauto.
    - assert (He : forall x, In x vs -> wf_val x = true /\ (depth x < fuel)%nat).
      { intros x Hx. destruct (wf_aelems _ _ _ x Hrw Hx). split; [assumption|unfold fuel; lia]. }
      destruct (on_elems_good fuel (validate c fuel) Hg [] etstr vs O He empty_buf) as (b1 & E & _). eauto.
    - assert (He : forall k x, In (k, x) entries -> wf_val x = true /\ (depth x < fuel)%nat).
      { intros k x Hx. destruct (wf_entries _ _ _ _ k x Hrw Hx). split; [assumption|unfold fuel; lia]. }
      destruct (on_entries_good fuel (validate c fuel) Hg [] (s2b "map") entries He empty_buf) as (b1 & E & _). eauto. }
  destruct Hb as [b Eb]. rewrite Eb. cbn. eauto.
Qed.

Lemma var_rules_total c tv vns : wf_val tv = true -> forall b, exists b', var_rules c tv vns b = Ok b'.
Proof.
  intros Hw. induction vns as [|vn vns IH]; intros b; cbn [var_rules]; [eauto|].
  assert (Hr : exists b1, var_rule c tv vn b = Ok b1).
  { unfold var_rule. destruct vn; [eauto|]. destruct (get_fn c _); [eauto| | |];
      destruct (is_zero_total tv Hw) as [z Ez]; try rewrite Ez; cbn;
      repeat match goal with |- context[if ?x then _ else _] => destruct x end; cbn; try rewrite Ez; cbn; eauto.
    all: destruct z; eauto. }
  destruct Hr as [b1 E1]. rewrite E1. cbn. apply IH.
Qed.

Theorem var_valid_total c rules src : wf_src src = true -> exists o, var_valid c rules src = Ok o.
Proof.
  destruct src as [v|]; [|intros _; cbn; eauto]. intros Hw. cbn [wf_src] in Hw. unfold var_valid.
  destruct (remove_ptr_wf v Hw) as [E|[Hw' _]]; [rewrite E; eauto|].
  destruct (remove_ptr v) eqn:Er; try discriminate;
    (destruct (negb (var_supported _)); [eauto|]);
    (destruct (rm_get _ _); [eauto|]);
    match goal with |- context[var_rules c ?tv ?l empty_buf] =>
      let b1 := fresh "b1" in let Eb := fresh "Eb" in
      destruct (var_rules_total c tv l Hw' empty_buf) as [b1 Eb]; rewrite Eb; cbn; eauto end.
Qed.

Lemma map_rules_total c prefix key v vns : wf_val v = true -> forall b, exists b', map_rules c prefix key v vns b = Ok b'.
Proof.
  intros Hw. induction vns as [|vn vns IH]; intros b; cbn [map_rules]; [eauto|].
  assert (Hr : exists b1, map_rule c prefix key v vn b = Ok b1).
  { unfold map_rule. destruct vn; [eauto|]. destruct (is_zero_total v Hw) as [z Ez].
    destruct (get_fn c _); [eauto| | |]; try rewrite Ez; cbn;
      repeat match goal with |- context[if ?x then _ else _] => destruct x end; cbn; try rewrite Ez; cbn; eauto.
    all: destruct z; eauto. }
  destruct Hr as [b1 E1]. rewrite E1. cbn. apply IH.
Qed.

Lemma map_entries_total c rules prefix es : (forall k x, In (k, x) es -> wf_val x = true) ->
  forall b, exists b', map_entries c rules prefix es b = Ok b'.
Proof.
  induction es as [|[k v] es IH]; intros H b; cbn [map_entries]; [eauto|].
  assert (Hv : wf_val v = true) by (eapply H; left; reflexivity).
  assert (Hr : exists b1, match rm_get rules (str_of k) with
                          | [] => Ok b
                          | vns => map_rules c prefix (str_of k) v (names_split COMMA vns) b
                          end = Ok b1).
  { destruct (rm_get rules (str_of k)); [eauto|]. now apply map_rules_total. }
  destruct Hr as [b1 E1]. rewrite E1. cbn. apply IH. intros k' x Hx. eapply H. right. exact Hx.
Qed.

Lemma map_validate_total c rules prefix tv : wf_val tv = true \/ tv = VInvalid ->
  forall b, exists b', map_validate c rules prefix tv b = Ok b'.
Proof.
  intros Hw b. unfold map_validate. destruct tv; eauto. destruct kk; eauto.
  apply map_entries_total. intros k x Hx. destruct Hw as [Hw|Hw]; [|discriminate].
  apply (wf_entries _ _ _ _ k x Hw Hx).
Qed.

Lemma map_elems_total c rules vs : (forall x, In x vs -> wf_val x = true) ->
  forall i b, exists b', map_elems c rules i vs b = Ok b'.
Proof.
  induction vs as [|x vs IH]; intros H i b; cbn [map_elems]; [eauto|].
  destruct (map_validate_total c rules (LBR :: itoa (Z.of_nat i) ++ [RBR]) x (or_introl (H x (or_introl eq_refl))) b) as [b1 E1].
  rewrite E1. cbn. apply IH. intros y Hy. apply H. now right.
Qed.

Theorem map_valid_total c rules src : wf_src src = true -> exists o, map_valid c rules src = Ok o.
Proof.
  destruct src as [v|]; [|intros _; cbn; eauto]. intros Hw. cbn [wf_src] in Hw. unfold map_valid.
  destruct rules as [|r0 rules]; [eauto|]. set (rs := r0 :: rules).
  assert (Hb : exists b, match remove_ptr v with
                         | VSlice _ _ _ vs | VArray _ _ vs => map_elems c rs O vs empty_buf
                         | tv => map_validate c rs [] tv empty_buf
                         end = Ok b).
  { destruct (remove_ptr_wf v Hw) as [E|[Hw' _]].
    - rewrite E. apply map_validate_total. now right.
    - destruct (remove_ptr v) eqn:Er; try (apply map_validate_total; now left).
      + apply map_elems_total. intros x Hx. apply (wf_elems _ _ _ _ x Hw' Hx).
      + apply map_elems_total. intros x Hx. apply (wf_aelems _ _ _ x Hw' Hx). }
  destruct Hb as [b Eb]. rewrite Eb. cbn. eauto.
Qed.

Lemma url_rules_total c key v vns : forall b, exists b', url_rules c key v vns b = Ok b'.
Proof.
  induction vns as [|vn vns IH]; intros b; cbn [url_rules]; [eauto|].
  assert (Hr : exists b1, url_rule c key v vn b = Ok b1).
  { unfold url_rule. destruct vn; [eauto|]. destruct (get_fn c _); [eauto| | |];
      repeat match goal with |- context[if ?x then _ else _] => destruct x end;
      repeat match goal with |- context[match ?x with [] => _ | _ :: _ => _ end] => destruct x end; eauto. }
  destruct Hr as [b1 E1]. rewrite E1. cbn. apply IH.
Qed.

Lemma url_params_total c rules qs : forall b, exists b', url_params c rules qs b = Ok b'.
Proof.
  induction qs as [|q qs IH]; intros b; cbn [url_params]; [eauto|].
  assert (Hr : exists b1, match rm_get rules (nth 0 (split q EQS) []) with
                          | [] => Ok b
                          | vns => url_rules c (nth 0 (split q EQS) []) (nth 1 (split q EQS) []) (names_split COMMA vns) b
                          end = Ok b1).
  { destruct (rm_get rules _); [eauto|]. apply url_rules_total. }
  destruct Hr as [b1 E1]. rewrite E1. cbn. apply IH.
Qed.

Ltac url_branch c rules :=
  match goal with |- context[query_unescape ?s] => destruct (query_unescape s) as [dec|bad]; [|eauto] end;
  cbv zeta;
  match goal with |- context[match ?q with [] => Ok ONil | _ :: _ => _ end] => destruct q; [eauto|] end;
  match goal with |- context[url_params c rules ?qs empty_buf] =>
    let b1 := fresh "b1" in let Eb := fresh "Eb" in
    destruct (url_params_total c rules qs empty_buf) as [b1 Eb]; rewrite Eb end;
  cbn; eauto.

Theorem url_valid_total c rules src : exists o, url_valid c rules src = Ok o.
Proof.
  unfold url_valid. destruct src as [v|]; [|eauto].
  destruct v as [|b0|w z|w n|i32 fv r1 r2|s0|t0|v0|isnil ek etstr vs|ek etstr vs|isnil kk tstr entries|si fields|inner|tz|t0]; try solve [eauto].
  - url_branch c rules.
  - destruct v0; try solve [eauto]. url_branch c rules.
Qed.
