(* GoWalkVarFinal.v — VVar.Valid as a whole, through the source text of validate. *)
From Coq Require Import String.
From PGV Require Import Base.Bytes Base.GoStr Base.GoNum Base.Utf8 Base.Url Base.MiniGo.
From PGV Require Import Extracted.SourceConst Extracted.SourceTable Extracted.SourceFnsWalk.
From PGV Require Import Model.RuleText Model.Value Model.Clause Model.Rules Model.Walk Model.GoWalk Proofs.GoWalkProofs Proofs.GoWalkVar.
Open Scope Z_scope.

Section Walk.
  Variable c : cfg.
  Variable rules : rm.

  (* VVar.Valid as a whole: the rule set SetRules builds, the source text of validate, then getError *)
  Theorem var_valid_via_source (rs : list str) v :
    rules = rm_set [] validVarFieldName rs ->
    remove_ptr v <> VInvalid -> var_supported (kind (remove_ptr v)) = true ->
    match run_var_validate c rules fn_VVar_validate (remove_ptr v) empty_buf with
    | Some r => var_valid c rs (Some v) = (b <- r ;; Ok (get_error b))
    | None => False
    end.
  Proof.
    intros Hr Hv Hs. rewrite var_validate_from_source. unfold var_valid. rewrite <- Hr.
    destruct (remove_ptr v) eqn:Ev; [contradiction Hv; reflexivity|..];
      rewrite Hs; cbn [negb]; destruct (rm_get rules validVarFieldName) as [|r0 rr]; reflexivity.
  Qed.
End Walk.
