(* Bridges the harness-evaluated definitions of Run/Run_C14.v to the lemmas of RuleTextProofs.v *)
From PGV Require Import Base.Bytes Base.GoStr Base.Utf8.
From PGV Require Import Extracted.SourceConst.
From PGV Require Import Model.RuleText Spec.RuleTextSpec Proofs.RuleTextProofs Run.Run_C14.

Lemma gen_of_gen_rule x : gen_of x = gen_rule (to_rule x).
Proof.
  destruct x as [[k v] m]. unfold gen_of, gen_rule, args_of, to_rule. cbn [r_key r_val r_msg].
  destruct v, m; reflexivity.
Qed.

Lemma forallb_map' {A B} (f : B -> bool) (g : A -> B) l : forallb f (map g l) = forallb (fun x => f (g x)) l.
Proof. induction l as [|x l IH]; cbn; [reflexivity|now rewrite IH]. Qed.

Lemma fold_left_ext' {A B} (f g : A -> B -> A) l a : (forall a x, f a x = g a x) -> fold_left f l a = fold_left g l a.
Proof. intros H. revert a; induction l as [|x l IH]; intros a; cbn; [reflexivity|]. now rewrite H, IH. Qed.

Lemma round_model_roundtrip f rules :
  field_ok f -> forallb (fun x => wf_rule (to_rule x)) rules = true ->
  round_model f rules = map (fun x => parsed_spec ExplainEn ExplainZh (to_rule x)) rules.
Proof.
  intros Hf Hwf. unfold round_model.
  pose proof (list_roundtrip f (map to_rule rules) Hf) as H.
  rewrite forallb_map' in H. specialize (H Hwf). rewrite map_map in H. rewrite <- H.
  f_equal. f_equal. f_equal. rewrite fold_left_map'.
  apply fold_left_ext'. intros acc x. now rewrite gen_of_gen_rule.
Qed.

(* D14: a '|' inside a value cannot be written in the grammar: the round trip fails *)
Definition d14_rule : rule := {| r_key := s2b "in"; r_val := s2b "a|b"; r_msg := None |}.
Lemma bar_in_value_breaks :
  parse_kv (gen_rule d14_rule) <> parsed_spec ExplainEn ExplainZh d14_rule.
Proof. vm_compute. discriminate. Qed.
