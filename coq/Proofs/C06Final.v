(* Bridges the harness-evaluated definitions of Run/Run_C06.v to the theorems of InjectProofs.v:
   on the property's domain a case that agrees with the model satisfies the specification. *)
From PGV Require Import Base.Bytes Base.GoStr.
From PGV Require Import Spec.InjectSpec Model.Inject Proofs.InjectProofs Run.Run_C06.

Lemma area_eqb_eq a b : area_eqb a b = true <-> a = b.
Proof.
  destruct a as [s e c i], b as [s' e' c' i']. unfold area_eqb. cbn [a_start a_end a_cur a_inj]. split.
  - intros H. apply andb_prop in H as [H Hi]. apply andb_prop in H as [H Hc]. apply andb_prop in H as [Hs He].
    apply Z.eqb_eq in Hs, He. apply str_eqb_eq in Hc, Hi. congruence.
  - intros H. inversion H; subst. now rewrite !Z.eqb_refl, !str_eqb_refl.
Qed.

Lemma res_areas_eqb_eq r l : res_areas_eqb r l = true <-> r = Ok l.
Proof.
  unfold res_areas_eqb. destruct r as [a| |]; [|split; discriminate|split; discriminate].
  rewrite (list_eqb_eq area_eqb area_eqb_eq). split; congruence.
Qed.

Lemma res_str_eqb_eq r o : res_str_eqb r o = true <-> r = Ok o.
Proof.
  unfold res_str_eqb. destruct r as [a| |]; [|split; discriminate|split; discriminate].
  rewrite str_eqb_eq. split; congruence.
Qed.

(* one run through any entry point: obs = model implies obs = spec *)
Theorem cfile_model_implies_spec f areas outs : wf_file f = true ->
  check_model (CFile f areas outs) = true -> check_spec (CFile f areas outs) = true.
Proof.
  intros Hwf H. cbn [check_model check_spec] in *. rewrite Hwf. cbn [andb].
  apply andb_prop in H as [Ha Ho]. apply res_areas_eqb_eq in Ha.
  destruct (splice_frame f Hwf) as (areas' & Ha' & Hw). rewrite Ha in Ha'. inversion Ha'; subst areas'.
  rewrite forallb_forall in *. intros o Hin. specialize (Ho o Hin). apply res_str_eqb_eq in Ho.
  rewrite Hw in Ho. inversion Ho; subst. apply str_eqb_refl.
Qed.

(* repeated runs *)
Lemma replay_fixed f later : wf_file f = true ->
  forallb (fun st => res_areas_eqb (areas_of (inject_file f)) (fst st)) later = true ->
  replay (render (inject_file f)) later = true ->
  forallb (fun st => str_eqb (render (inject_file f)) (snd st)) later = true.
Proof.
  intros Hwf. induction later as [|[a o] later IH]; intros Ha Hr; [reflexivity|].
  cbn [forallb fst snd replay] in *. apply andb_prop in Ha as [Ha1 Ha]. apply andb_prop in Hr as [Hr1 Hr].
  apply res_areas_eqb_eq in Ha1. apply res_str_eqb_eq in Hr1.
  pose proof (tool_run_twice f Hwf) as Ht. unfold tool_run in Ht. rewrite Ha1 in Ht. cbn [bind] in Ht.
  rewrite Ht in Hr1. inversion Hr1; subst o. rewrite str_eqb_refl. cbn [andb]. now apply IH.
Qed.

Theorem crepeat_model_implies_spec f steps : wf_file f = true ->
  check_model (CRepeat f steps) = true -> check_spec (CRepeat f steps) = true.
Proof.
  intros Hwf H. cbn [check_model check_spec] in *. rewrite Hwf. cbn [andb].
  destruct steps as [|[a1 o1] later]; [reflexivity|].
  apply andb_prop in H as [H Hr]. apply andb_prop in H as [Ha1 Hal]. apply res_areas_eqb_eq in Ha1.
  cbn [replay] in Hr. apply andb_prop in Hr as [Hr1 Hr]. apply res_str_eqb_eq in Hr1.
  pose proof (tool_run_spec f Hwf) as Ht. unfold tool_run in Ht. rewrite Ha1 in Ht. cbn [bind] in Ht.
  rewrite Ht in Hr1. inversion Hr1; subst o1.
  cbn [forallb snd]. rewrite str_eqb_refl. cbn [andb]. now apply replay_fixed.
Qed.
