(* The rule contract every walker theorem relies on: each rule function writes at most one
   clause, that clause names the object and field it was given, and whether it writes one does
   not depend on those names (C02, C18). *)
From PGV Require Import Base.Bytes Base.GoStr Base.GoNum Base.Utf8 Regex.Re Regex.Rx.
From PGV Require Import Extracted.SourceConst Extracted.SourceRegex.
From PGV Require Import Model.RuleText Model.Value Model.Clause Model.Rules.

Definition clause_names (c : clause) : option (str * str) :=
  match c with
  | CValid o f _ _ => Some (o, f)
  | CField o f _ => Some (o, f)
  | CGroup _ _ => None
  end.

Definition violated (cs : list clause) : bool := match cs with [] => false | _ => true end.

(* at most one clause, carrying the given names; the verdict ignores the names *)
Definition contract (f : rulefn) : Prop :=
  forall vn obj field v,
    (length (f vn obj field v) <= 1)%nat /\
    (forall c, In c (f vn obj field v) -> clause_names c = Some (obj, field)) /\
    (forall obj' field', violated (f vn obj field v) = violated (f vn obj' field' v)).

Ltac fin := cbn; repeat split; try lia; try reflexivity;
  try (let c := fresh "c" in let H := fresh "H" in intros c H; cbn in H;
       repeat match type of H with _ \/ _ => destruct H as [H|H] end; try contradiction; subst; reflexivity).
Ltac brk := repeat match goal with |- context[if ?c then _ else _] => destruct c end.

Lemma str_rule_contract rule ok : contract (str_rule rule ok).
Proof. intros vn obj field v. unfold str_rule, check_is_str. destruct v; cbn; brk; fin. Qed.

Lemma to_like_contract he : contract (to_like he).
Proof.
  intros vn obj field v. unfold to_like.
  destruct (parse_tag_to _ _) as [[mn mx]|e]; [|fin].
  destruct (valid_input_size mn mx v he) as [[lt gt] vs]. destruct (lt || gt); fin.
Qed.

Lemma one_sided_contract lower he rule : contract (one_sided lower he rule).
Proof.
  intros vn obj field v. unfold one_sided.
  destruct lower; destruct (valid_input_size _ _ v he) as [[lt gt] vs]; try destruct lt; try destruct gt; fin.
Qed.

Lemma eq_like_contract want : contract (eq_like want).
Proof. intros vn obj field v. unfold eq_like. destruct (Bool.eqb _ want); fin. Qed.

Lemma in_like_contract : contract in_like.
Proof.
  intros vn obj field v. unfold in_like.
  destruct (in_opts (pk_val vn)) as [opts|]; [|fin].
  destruct v; cbn; brk; fin.
Qed.

Lemma rInt_contract : contract rInt.
Proof. intros vn obj field v. unfold rInt. destruct v; cbn; brk; fin. Qed.
Lemma rFloat_contract : contract rFloat.
Proof. intros vn obj field v. unfold rFloat. destruct v; cbn; brk; fin. Qed.
Lemma rInts_contract : contract rInts.
Proof. intros vn obj field v. unfold rInts. destruct v; cbn [elems_of kind is_num_kind]; brk; fin. Qed.
Lemma rUnique_contract : contract rUnique.
Proof. intros vn obj field v. unfold rUnique. destruct v; cbn [elems_of]; brk; fin. Qed.

Section O.
  Variable orc : oracles.

  Lemma rRe_contract : contract (rRe orc).
  Proof.
    intros vn obj field v. unfold rRe, check_is_str. destruct v; cbn; try solve [fin].
    destruct (index_byte QUOTE vn) as [si|]; [|fin].
    destruct (re_scan _ _) as [[p rest]|]; [|fin]. brk; fin.
  Qed.

  Lemma rJson_contract : contract (rJson orc).
  Proof. intros vn obj field v. unfold rJson, check_is_str. destruct v; cbn; brk; fin. Qed.

  Lemma file_like_contract d : contract (file_like orc d).
  Proof.
    intros vn obj field v. unfold file_like, check_is_str. destruct v; cbn; try solve [fin].
    destruct (stat_lookup orc _) as [[isd e]|]; [destruct (Bool.eqb isd d)|]; fin.
  Qed.

  (* every function the rule table can dispatch to *)
  Theorem table_contract name f : fn_by_name orc name = Some f -> contract f.
  Proof.
    unfold fn_by_name, fn_table. cbn [lookup1].
    repeat match goal with
    | |- (if ?c then Some ?g else _) = Some f -> _ =>
        destruct c; [intros H; inversion H; subst; clear H|]
    end; try discriminate;
    try apply to_like_contract; try apply one_sided_contract; try apply eq_like_contract;
    try apply in_like_contract; try apply str_rule_contract; try apply rInt_contract;
    try apply rFloat_contract; try apply rInts_contract; try apply rUnique_contract;
    try apply rRe_contract; try apply rJson_contract; try apply file_like_contract;
    try (intros vn; apply (str_rule_contract _ _ vn)).
  Qed.
End O.
