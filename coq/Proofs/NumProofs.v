(* NumProofs.v — strconv.Itoa then strconv.Atoi is the identity on int64, for every integer (no
   bound on the number of digits other than int64 itself); the text lo~hi written with Itoa parses
   back to (lo, hi).  Closes the step "bounds as written by the builder -> bounds as read by the
   rule functions" of C01 without appeal to a finite sweep. *)
From PGV Require Import Base.Bytes Base.GoStr Base.GoNum.
From PGV Require Import Model.RuleText Model.Value Model.Clause Model.Rules.
Open Scope Z_scope.

Lemma is_digit_digit (d : N) : (d < 10)%N -> is_digit (48 + d)%N = true.
Proof. intros H. unfold is_digit. apply andb_true_intro. split; [apply N.leb_le|apply N.leb_le]; lia. Qed.

(* the digits of n, most significant first, and what digits_val reads back from them *)
Lemma itoa_pos_digits f : forall n acc, (N.log2 n < N.of_nat f)%N ->
  exists ds, itoa_pos f n acc = ds ++ acc /\ ds <> [] /\
    forallb is_digit ds = true /\
    forall a rest, digits_val a (ds ++ rest) = digits_val (a * 10 ^ Z.of_nat (length ds) + Z.of_N n) rest.
Proof.
  induction f as [|f IH]; intros n acc Hf; [lia|].
  cbn [itoa_pos]. cbv zeta. destruct (n <? 10)%N eqn:E.
  - apply N.ltb_lt in E. exists [(48 + n mod 10)%N]. rewrite (N.mod_small n 10 E).
    split; [reflexivity|]. split; [discriminate|]. split; [cbn [forallb]; now rewrite (is_digit_digit n E)|].
    intros a rest. cbn [app digits_val length]. rewrite (is_digit_digit n E).
    f_equal. rewrite (N.add_comm 48), N.add_sub. change (Z.of_nat 1) with 1. lia.
  - apply N.ltb_ge in E.
    assert (Hd : (n mod 10 < 10)%N) by (apply N.mod_lt; lia).
    destruct (IH (n / 10)%N ((48 + n mod 10)%N :: acc)) as (ds & E1 & Hne & Hdig & Hval).
    { assert (H2 : (n / 10 <= n / 2)%N) by (apply N.div_le_compat_l; lia).
      assert (Hl : (N.log2 (n / 10) <= N.log2 (n / 2))%N) by (apply N.log2_le_mono; exact H2).
      rewrite <- N.div2_div, N.div2_spec, N.log2_shiftr in Hl.
      assert (H1 : (N.log2 2 <= N.log2 n)%N) by (apply N.log2_le_mono; lia). change (N.log2 2) with 1%N in H1. lia. }
    exists (ds ++ [(48 + n mod 10)%N]). rewrite E1, <- app_assoc. split; [reflexivity|].
    split; [destruct ds; discriminate|]. split.
    + rewrite forallb_app, Hdig. cbn [forallb andb]. now rewrite (is_digit_digit _ Hd).
    + intros a rest. rewrite <- app_assoc. rewrite Hval. cbn [app digits_val].
      rewrite (is_digit_digit _ Hd). f_equal. rewrite app_length. cbn [length].
      rewrite (N.add_comm 48), N.add_sub.
      rewrite Nat2Z.inj_add. change (Z.of_nat 1) with 1. rewrite Z.pow_add_r by lia. change (10 ^ 1) with 10.
      pose proof (N.div_mod n 10 ltac:(lia)) as Hdm. apply (f_equal Z.of_N) in Hdm.
      rewrite N2Z.inj_add, N2Z.inj_mul in Hdm. change (Z.of_N 10) with 10 in Hdm. lia.
Qed.

Lemma utoa_digits n : exists ds, utoa n = ds /\ ds <> [] /\ forallb is_digit ds = true /\
  digits_val 0 ds = Some (Z.of_N n).
Proof.
  unfold utoa. destruct (itoa_pos_digits (S (N.to_nat (N.log2 n))) n []) as (ds & E & Hne & Hd & Hv); [lia|].
  exists ds. rewrite E, app_nil_r. repeat split; try assumption.
  specialize (Hv 0 []). rewrite app_nil_r in Hv. rewrite Hv. reflexivity.
Qed.

Lemma digit_not_sign c : is_digit c = true -> (c =? 45)%N = false /\ (c =? 43)%N = false.
Proof.
  unfold is_digit. intros H. apply andb_prop in H. destruct H as [H1 H2].
  apply N.leb_le in H1. split; apply N.eqb_neq; lia.
Qed.

Theorem atoi_itoa z : in_int64 z = true -> atoi (itoa z) = (z, false).
Proof.
  intros Hr. unfold itoa. destruct (z <? 0) eqn:Ez.
  - apply Z.ltb_lt in Ez. destruct (utoa_digits (Z.to_N (- z))) as (ds & E & Hne & Hd & Hv).
    rewrite E. unfold atoi. rewrite N.eqb_refl. destruct ds as [|d ds]; [now destruct Hne|].
    rewrite Hv. rewrite Z2N.id by lia. replace (- - z) with z by lia. now rewrite Hr.
  - apply Z.ltb_ge in Ez. destruct (utoa_digits (Z.to_N z)) as (ds & E & Hne & Hd & Hv).
    rewrite E. unfold atoi. destruct ds as [|d ds]; [now destruct Hne|].
    cbn [forallb] in Hd. apply andb_prop in Hd. destruct Hd as [Hd0 _].
    destruct (digit_not_sign d Hd0) as [-> ->].
    rewrite Hv. rewrite Z2N.id by lia. now rewrite Hr.
Qed.

(* the characters Itoa writes *)
Lemma itoa_chars z : forallb (fun c => is_digit c || (c =? 45)%N) (itoa z) = true.
Proof.
  unfold itoa. destruct (z <? 0).
  - destruct (utoa_digits (Z.to_N (- z))) as (ds & -> & _ & Hd & _). cbn [forallb]. rewrite N.eqb_refl, orb_true_r. cbn [andb].
    rewrite forallb_forall in *. intros c Hc. now rewrite (Hd c Hc).
  - destruct (utoa_digits (Z.to_N z)) as (ds & -> & _ & Hd & _).
    rewrite forallb_forall in *. intros c Hc. now rewrite (Hd c Hc).
Qed.
Lemma itoa_nomem z c : (is_digit c || (c =? 45)%N) = false -> nomem c (itoa z) = true.
Proof.
  intros Hc. unfold nomem. pose proof (itoa_chars z) as H. rewrite forallb_forall in *.
  intros x Hx. specialize (H x Hx). apply negb_true_iff, N.eqb_neq. intros ->. congruence.
Qed.

(* strings.Split on a one-byte separator around two clean pieces *)
Lemma split_go_clean c fuel : forall t cur, nomem c t = true -> (length t < fuel)%nat ->
  split_go fuel [c] cur t = [rev cur ++ t].
Proof.
  induction fuel as [|f IH]; intros t cur Hn Hl; [lia|].
  destruct t as [|x t]; cbn [split_go]; [now rewrite app_nil_r|].
  cbn [nomem forallb] in Hn. apply andb_prop in Hn. destruct Hn as [Hx Hn].
  cbn [has_prefix]. apply negb_true_iff in Hx. rewrite Hx. cbn [andb].
  rewrite IH; [|exact Hn|cbn in Hl; lia]. cbn [rev]. now rewrite <- app_assoc.
Qed.
Lemma split_go_two c fuel : forall a cur b, nomem c a = true -> nomem c b = true ->
  (length a + 1 + length b < fuel)%nat -> split_go fuel [c] cur (a ++ c :: b) = [rev cur ++ a; b].
Proof.
  induction fuel as [|f IH]; intros a cur b Ha Hb Hl; [lia|].
  destruct a as [|x a]; cbn [app split_go].
  - cbn [has_prefix]. rewrite N.eqb_refl. cbn [andb]. destruct b; cbn [has_prefix length skipn];
      rewrite app_nil_r; f_equal; apply (split_go_clean c f _ [] Hb); cbn in Hl; cbn; lia.
  - cbn [nomem forallb] in Ha. apply andb_prop in Ha. destruct Ha as [Hx Ha].
    cbn [has_prefix]. apply negb_true_iff in Hx. rewrite Hx. cbn [andb].
    rewrite IH; [|exact Ha|exact Hb|cbn in Hl; lia]. cbn [rev]. now rewrite <- app_assoc.
Qed.
Lemma split_two c a b : nomem c a = true -> nomem c b = true -> split (a ++ c :: b) [c] = [a; b].
Proof.
  intros Ha Hb. unfold split. rewrite (split_go_two c _ a [] b Ha Hb); [reflexivity|].
  rewrite app_length. cbn [length]. lia.
Qed.

Theorem parse_tag_to_itoa lo hi rule : in_int64 lo = true -> in_int64 hi = true ->
  parse_tag_to (itoa lo ++ TILDE ++ itoa hi) rule = inl (lo, hi).
Proof.
  intros Hlo Hhi. unfold parse_tag_to, TILDE.
  match goal with |- context[match ?S with _ => _ end] => set (sp := S) end.
  assert (E : sp = [itoa lo; itoa hi]) by (subst sp; apply (split_two 126%N (itoa lo) (itoa hi)); apply itoa_nomem; reflexivity).
  rewrite E. now rewrite (atoi_itoa lo Hlo), (atoi_itoa hi Hhi).
Qed.
