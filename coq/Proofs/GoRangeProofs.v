(* GoRangeProofs.v — the invariant rule for the range loop of Model/GoParse.v. *)
From Coq Require Import String.
From PGV Require Import Base.Bytes Base.GoStr Base.MiniGo Model.RuleText Model.GoParse.
Open Scope Z_scope.

Lemma range_inv (b : Z -> str -> penv -> pflow) (P : nat -> penv -> Prop) : forall l k e,
  P k e ->
  (forall j c e0, nth_error l j = Some c -> P (k + j)%nat e0 ->
     exists e1, (b (Z.of_nat (k + j)) c e0 = PNext e1 \/ b (Z.of_nat (k + j)) c e0 = PCont e1) /\ P (S (k + j)) e1) ->
  exists e', range_loop l (Z.of_nat k) b e = PNext e' /\ P (k + List.length l)%nat e'.
Proof.
  induction l as [|c r IH]; intros k e HP Hstep; cbn [range_loop List.length].
  - exists e. rewrite Nat.add_0_r. auto.
  - destruct (Hstep 0%nat c e eq_refl) as (e1 & Hb & HP1); [now rewrite Nat.add_0_r|].
    rewrite Nat.add_0_r in Hb, HP1.
    assert (Hgo : range_loop r (Z.of_nat k + 1) b e1 = range_loop r (Z.of_nat (S k)) b e1) by (f_equal; lia).
    destruct (IH (S k) e1 HP1) as (e' & He' & HP').
    + intros j c0 e0 Hn HPj. replace (S k + j)%nat with (k + S j)%nat in * by lia. apply (Hstep (S j) c0 e0 Hn HPj).
    + exists e'. replace (k + S (List.length r))%nat with (S k + List.length r)%nat by lia. split; [|exact HP'].
      destruct Hb as [-> | ->]; rewrite Hgo; exact He'.
Qed.

Lemma firstn_snoc {X} (l : list X) j c : nth_error l j = Some c -> firstn (S j) l = firstn j l ++ [c].
Proof.
  revert j; induction l as [|x l IH]; intros [|j] H; try discriminate; cbn in *.
  - now inversion H.
  - now rewrite (IH j H).
Qed.
