(* Proofs about Model/LRU.v: the cache refines the abstract LRU of Spec/LRUSpec.v (C09). *)
From PGV Require Import Base.Bytes Spec.LRUSpec Model.LRU.

(* ---------- coupling relation ---------- *)
(* R m l a : the list l of (id,value) and the abstract list a agree position-wise, ids resolved through m *)
Inductive R (m : list (K * id)) : list (id * V) -> A -> Prop :=
| R_nil : R m [] []
| R_cons i v k l a : In (k, i) m -> R m l a -> R m ((i, v) :: l) ((k, v) :: a).

Record Inv (s : st) (a : A) : Prop := {
  inv_R      : R (nmap s) (lst s) a;
  inv_keys   : NoDup (map fst (nmap s));
  inv_idsm   : NoDup (map snd (nmap s));
  inv_idsl   : NoDup (map fst (lst s));
  inv_onto   : forall k i, In (k, i) (nmap s) -> In i (map fst (lst s));
  inv_fresh  : forall k i, In (k, i) (nmap s) -> (i < next s)%N;
  inv_akeys  : NoDup (map fst a);
}.

Lemma inv_init c : Inv (init c) [].
Proof. constructor; cbn; try constructor; intros; contradiction. Qed.

(* ---------- basic lemmas ---------- *)
Lemma find_key_some (m : list (K * id)) k i :
  NoDup (map fst m) -> In (k, i) m -> find (fun p => N.eqb (fst p) k) m = Some (k, i).
Proof.
  induction m as [|[k' i'] m IH]; cbn; intros Hnd Hin; [contradiction|].
  inversion Hnd as [|? ? Hni Hnd']; subst.
  destruct Hin as [E|Hin].
  - inversion E; subst. now rewrite N.eqb_refl.
  - destruct (N.eqb_spec k' k) as [->|Hne]; [|auto].
    exfalso. apply Hni. change k with (fst (k, i)). now apply in_map.
Qed.

Lemma find_key_none (m : list (K * id)) k :
  find (fun p => N.eqb (fst p) k) m = None -> forall i, ~ In (k, i) m.
Proof.
  intros H i Hin. eapply find_none in H; [|exact Hin]. cbn in H. now rewrite N.eqb_refl in H.
Qed.

Lemma find_key_in (m : list (K * id)) k p :
  find (fun p => N.eqb (fst p) k) m = Some p -> In p m /\ fst p = k.
Proof. intros H. apply find_some in H as [H1 H2]. split; [assumption|now apply N.eqb_eq]. Qed.

Lemma find_id_some (m : list (K * id)) k i :
  NoDup (map snd m) -> In (k, i) m -> find (fun p => N.eqb (snd p) i) m = Some (k, i).
Proof.
  induction m as [|[k' i'] m IH]; cbn; intros Hnd Hin; [contradiction|].
  inversion Hnd as [|? ? Hni Hnd']; subst.
  destruct Hin as [E|Hin].
  - inversion E; subst. now rewrite N.eqb_refl.
  - destruct (N.eqb_spec i' i) as [->|Hne]; [|auto].
    exfalso. apply Hni. change i with (snd (k, i)). now apply in_map.
Qed.

Lemma lookup_spec s a k : Inv s a ->
  match lookup k (nmap s) with
  | Some i => In (k, i) (nmap s)
  | None => forall i, ~ In (k, i) (nmap s)
  end.
Proof.
  intros HI. unfold lookup. destruct (find (fun p => N.eqb (fst p) k) (nmap s)) as [[k' i]|] eqn:E; cbn.
  - apply find_key_in in E as [Hin Hk]. cbn in Hk. now subst.
  - now apply find_key_none.
Qed.

(* R and lookups *)
Lemma R_in_lst m l a i v : R m l a -> In (i, v) l -> exists k, In (k, i) m /\ In (k, v) a.
Proof.
  induction 1 as [|i0 v0 k0 l a Hin HR IH]; cbn; [contradiction|].
  intros [E|H]; [inversion E; subst; eauto|]. destruct (IH H) as (k & ? & ?); eauto.
Qed.

Lemma R_in_abs m l a k v : R m l a -> In (k, v) a -> exists i, In (k, i) m /\ In (i, v) l.
Proof.
  induction 1 as [|i0 v0 k0 l a Hin HR IH]; cbn; [contradiction|].
  intros [E|H]; [inversion E; subst; eauto|]. destruct (IH H) as (i & ? & ?); eauto.
Qed.

Lemma R_length m l a : R m l a -> length l = length a.
Proof. induction 1; cbn; congruence. Qed.

Lemma R_weaken m m' l a : (forall k i, In (k,i) m -> In i (map fst l) -> In (k,i) m') -> R m l a -> R m' l a.
Proof.
  intros H HR. revert H. induction HR as [|i v k l a Hin HR IH]; intros H; constructor.
  - apply H; [assumption|now left].
  - apply IH. intros k' i' H1 H2. apply H; [assumption|now right].
Qed.

(* filtering both sides by an id / its key *)
Lemma R_del m l a k i :
  NoDup (map fst m) -> NoDup (map snd m) -> In (k, i) m ->
  R m l a -> R m (lst_del i l) (a_del k a).
Proof.
  intros Hk Hi Hin HR. induction HR as [|i0 v0 k0 l a Hin0 HR IH]; cbn; [constructor|].
  destruct (N.eqb_spec i0 i) as [->|Hne]; cbn.
  - (* same id -> same key *)
    assert (k0 = k).
    { pose proof (find_id_some m k0 i Hi Hin0) as E1. pose proof (find_id_some m k i Hi Hin) as E2. congruence. }
    subst k0. rewrite N.eqb_refl. cbn. exact IH.
  - assert (k0 <> k).
    { intros ->. pose proof (find_key_some m k i0 Hk Hin0) as E1. pose proof (find_key_some m k i Hk Hin) as E2. congruence. }
    destruct (N.eqb_spec k0 k); [contradiction|]. cbn. constructor; assumption.
Qed.

Lemma a_get_R m l a k i : NoDup (map fst m) -> NoDup (map snd m) -> In (k, i) m ->
  R m l a -> a_get k a = lst_val i l.
Proof.
  intros Hk Hi Hin HR. induction HR as [|i0 v0 k0 l a Hin0 HR IH]; cbn; [reflexivity|].
  unfold a_get, lst_val in *. cbn.
  destruct (N.eqb_spec i0 i) as [->|Hne].
  - assert (k0 = k).
    { pose proof (find_id_some m k0 i Hi Hin0) as E1. pose proof (find_id_some m k i Hi Hin) as E2. congruence. }
    subst. now rewrite N.eqb_refl.
  - assert (k0 <> k).
    { intros ->. pose proof (find_key_some m k i0 Hk Hin0) as E1. pose proof (find_key_some m k i Hk Hin) as E2. congruence. }
    destruct (N.eqb_spec k0 k); [contradiction|]. exact IH.
Qed.

Lemma a_get_none m l a k : R m l a -> (forall i, ~ In (k, i) m) -> a_get k a = None.
Proof.
  intros HR Hno. unfold a_get. destruct (find (fun p => N.eqb (fst p) k) a) as [[k' v]|] eqn:E; [|reflexivity].
  apply find_some in E as [Hin Hk]. cbn in Hk. apply N.eqb_eq in Hk. subst k'.
  destruct (R_in_abs _ _ _ _ _ HR Hin) as (i & Hi & _). now apply Hno in Hi.
Qed.

Lemma NoDup_filter_map {X Y} (f : X -> Y) (p : X -> bool) l : NoDup (map f l) -> NoDup (map f (filter p l)).
Proof.
  induction l as [|x l IH]; cbn; intros H; [constructor|]. inversion H as [|? ? Hni Hnd]; subst.
  destruct (p x); cbn; [constructor|]; auto.
  intros Hin. apply Hni. apply in_map_iff in Hin as (y & <- & Hy). apply filter_In in Hy as [Hy _]. now apply in_map.
Qed.

Lemma in_lst_del i j (l : list (id * V)) : In j (map fst (lst_del i l)) <-> In j (map fst l) /\ j <> i.
Proof.
  unfold lst_del. rewrite !in_map_iff. split.
  - intros ([j' v] & <- & H). apply filter_In in H as [H1 H2]. cbn in *. split; [exists (j', v); auto|].
    destruct (N.eqb_spec j' i); [discriminate|assumption].
  - intros (([j' v] & <- & H) & Hne). exists (j', v). split; [reflexivity|]. apply filter_In. split; [assumption|].
    cbn in *. destruct (N.eqb_spec j' i); [contradiction|reflexivity].
Qed.

Lemma a_del_notin k (a : A) : ~ In k (map fst (a_del k a)).
Proof.
  unfold a_del. rewrite in_map_iff. intros ([k' v] & E & H). cbn in E. subst k'.
  apply filter_In in H as [_ H]. cbn in H. now rewrite N.eqb_refl in H.
Qed.

(* ---------- touch (MoveToFront / re-store) ---------- *)
Lemma inv_touch s a k i v : Inv s a -> In (k, i) (nmap s) ->
  Inv (upd s (delcnt s) (nmap s) ((i, v) :: lst_del i (lst s)) (next s) (log s)) ((k, v) :: a_del k a).
Proof.
  intros HI Hin. destruct HI. constructor; cbn; auto.
  - constructor; [assumption|]. apply R_del; assumption.
  - constructor.
    + rewrite in_lst_del. tauto.
    + apply NoDup_filter_map. assumption.
  - intros k' i' H. destruct (N.eq_dec i' i) as [->|Hne]; [now left|right].
    apply in_lst_del. split; [eapply inv_onto0; eassumption|assumption].
  - constructor; [apply a_del_notin|apply NoDup_filter_map; assumption].
Qed.

Theorem load_refines s a k : Inv s a ->
  let '(s', r) := load k s in let '(a', r') := a_load k a in r = r' /\ Inv s' a' /\ log s' = log s.
Proof.
  intros HI. unfold load, a_load. pose proof (lookup_spec s a k HI) as Hl.
  destruct (lookup k (nmap s)) as [i|].
  - rewrite (a_get_R (nmap s) (lst s) a k i (inv_keys _ _ HI) (inv_idsm _ _ HI) Hl (inv_R _ _ HI)).
    destruct (lst_val i (lst s)) as [v|] eqn:Ev.
    + split; [reflexivity|]. split; [now apply inv_touch|reflexivity].
    + auto.
  - rewrite (a_get_none _ _ _ _ (inv_R _ _ HI) Hl). auto.
Qed.

(* ---------- insertion of a fresh key ---------- *)
Lemma R_mono m m' l a : (forall p, In p m -> In p m') -> R m l a -> R m' l a.
Proof. intros H HR. induction HR; constructor; auto. Qed.

Lemma inv_insert s a k v : Inv s a -> (forall i, ~ In (k, i) (nmap s)) ->
  Inv (upd s (delcnt s) ((k, next s) :: nmap s) ((next s, v) :: lst s) (N.succ (next s)) (log s)) ((k, v) :: a).
Proof.
  intros HI Hno. destruct HI. 
  assert (Hfresh_l : ~ In (next s) (map fst (lst s))).
  { intros Hin. apply in_map_iff in Hin as ([j w] & E & Hj). cbn in E. subst j.
    destruct (R_in_lst _ _ _ _ _ inv_R0 Hj) as (k' & Hk' & _). apply inv_fresh0 in Hk'. lia. }
  constructor; cbn.
  - constructor; [now left|]. eapply R_mono; [|eassumption]. intros p Hp. now right.
  - constructor; [|assumption]. intros Hin. apply in_map_iff in Hin as ([k' i'] & E & Hp). cbn in E. subst k'. now apply Hno in Hp.
  - constructor; [|assumption]. intros Hin. apply in_map_iff in Hin as ([k' i'] & E & Hp). cbn in E. subst i'.
    apply inv_fresh0 in Hp. lia.
  - constructor; assumption.
  - intros k' i' [E|H]; [inversion E; now left|right; eapply inv_onto0; eassumption].
  - intros k' i' [E|H]; [inversion E; lia|apply inv_fresh0 in H; lia].
  - constructor; [|assumption]. intros Hin. apply in_map_iff in Hin as ([k' w] & E & Hp). cbn in E. subst k'.
    destruct (R_in_abs _ _ _ _ _ inv_R0 Hp) as (i & Hi & _). now apply Hno in Hi.
Qed.

(* ---------- eviction of the last element ---------- *)
Lemma R_last m l a j w d d' : R m l a -> l <> [] -> last l d = (j, w) ->
  exists k, In (k, j) m /\ last a d' = (k, w).
Proof.
  induction 1 as [|i v k l a Hin HR IH]; [congruence|]. intros _ Hl.
  destruct l as [|p l'].
  - inversion HR; subst. cbn in *. inversion Hl; subst. eauto.
  - inversion HR as [|i1 v1 k1 l1 a1 Hin1 HR1]; subst.
    destruct (IH ltac:(congruence) Hl) as (k' & Hk' & Hla). exists k'. split; [assumption|].
    cbn in *. exact Hla.
Qed.

Lemma last_in {X} (l : list X) d : l <> [] -> In (last l d) l.
Proof.
  induction l as [|x l IH]; [congruence|]. intros _. destruct l as [|y l']; [now left|].
  right. apply IH. congruence.
Qed.

Lemma lst_del_notin (l : list (id * V)) j : ~ In j (map fst l) -> lst_del j l = l.
Proof.
  induction l as [|[i v] l IH]; cbn; intros H; [reflexivity|].
  destruct (N.eqb_spec i j) as [->|Hne]; [exfalso; apply H; now left|]. cbn. f_equal. apply IH. tauto.
Qed.

Lemma lst_del_last (l : list (id * V)) j w d : NoDup (map fst l) -> l <> [] -> last l d = (j, w) ->
  lst_del j l = removelast l.
Proof.
  induction l as [|[i v] l IH]; [congruence|]. intros Hnd _ Hl. inversion Hnd as [|? ? Hni Hnd']; subst.
  destruct l as [|p l'].
  - cbn in *. inversion Hl; subst. now rewrite N.eqb_refl.
  - assert (Hl' : last (p :: l') d = (j, w)) by exact Hl.
    assert (Hin : In j (map fst (p :: l'))).
    { change j with (fst (j, w)). apply in_map. rewrite <- Hl'. apply last_in. congruence. }
    assert (i <> j) by (intros ->; contradiction).
    change (lst_del j ((i, v) :: p :: l')) with
      (if negb (N.eqb i j) then (i, v) :: lst_del j (p :: l') else lst_del j (p :: l')).
    destruct (N.eqb_spec i j); [contradiction|]. cbn [negb].
    rewrite (IH Hnd' ltac:(congruence) Hl'). reflexivity.
Qed.

Lemma R_removelast m l a : R m l a -> R m (removelast l) (removelast a).
Proof.
  induction 1 as [|i v k l a Hin HR IH]; [constructor|].
  destruct l as [|p l']; inversion HR; subst; [constructor|].
  cbn [removelast]. constructor; [assumption|]. exact IH.
Qed.

Lemma removelast_in_fst {X Y} (l : list (X * Y)) x : In x (map fst (removelast l)) -> In x (map fst l).
Proof.
  induction l as [|p l IH]; cbn; [tauto|]. destruct l as [|q l']; cbn in *; [tauto|].
  intros [H|H]; [now left|right; apply IH; exact H].
Qed.

Lemma NoDup_removelast {X Y} (l : list (X * Y)) : NoDup (map fst l) -> NoDup (map fst (removelast l)).
Proof.
  induction l as [|p l IH]; cbn; intros H; [constructor|]. inversion H as [|? ? Hni Hnd]; subst.
  destruct l as [|q l']; [constructor|]. cbn [map]. constructor.
  - intros Hin. apply Hni. apply (removelast_in_fst (q :: l')). exact Hin.
  - apply IH. exact Hnd.
Qed.

(* delete_node on the last element = removelast on the abstract side, logging (key, value) *)
Lemma inv_evict_last s a d d' j w : Inv s a -> lst s <> [] -> last (lst s) d = (j, w) ->
  let s' := delete_node j w s in
  Inv s' (removelast a) /\ log s' = log s ++ [last a d'].
Proof.
  intros HI Hne Hl. destruct (R_last _ _ _ _ _ d d' (inv_R _ _ HI) Hne Hl) as (k & Hk & Hla).
  unfold delete_node, key_of. rewrite (find_id_some _ k j (inv_idsm _ _ HI) Hk). cbn [option_map fst].
  rewrite (lst_del_last _ j w d (inv_idsl _ _ HI) Hne Hl). rewrite Hla. split; [|reflexivity].
  assert (Hjnot : ~ In j (map fst (removelast (lst s)))).
  { rewrite <- (lst_del_last _ j w d (inv_idsl _ _ HI) Hne Hl). rewrite in_lst_del. tauto. }
  destruct HI. constructor; cbn.
  - (* R over the smaller map: removed key's id is no longer in the list *)
    apply (R_weaken (nmap s)); [|apply R_removelast; assumption].
    intros k' i' H1 H2. unfold map_del. apply filter_In. split; [assumption|]. cbn.
    destruct (N.eqb_spec k' k) as [->|]; [|reflexivity].
    assert (i' = j).
    { pose proof (find_key_some _ k i' inv_keys0 H1) as E1. pose proof (find_key_some _ k j inv_keys0 Hk) as E2. congruence. }
    subst i'. contradiction.
  - apply NoDup_filter_map; assumption.
  - apply NoDup_filter_map; assumption.
  - apply NoDup_removelast; assumption.
  - intros k' i' H. apply filter_In in H as [H Hk']. cbn in Hk'.
    assert (i' <> j).
    { intros ->. pose proof (find_id_some _ k' j inv_idsm0 H) as E1. pose proof (find_id_some _ k j inv_idsm0 Hk) as E2.
      assert (k' = k) by congruence. subst. now rewrite N.eqb_refl in Hk'. }
    rewrite <- (lst_del_last _ j w d inv_idsl0 Hne Hl). apply in_lst_del. split; [eapply inv_onto0; eassumption|assumption].
  - intros k' i' H. apply filter_In in H as [H _]. eapply inv_fresh0; eassumption.
  - apply NoDup_removelast; assumption.
Qed.

Lemma filter_len {X} (p : X -> bool) l : length (filter p l) <= length l.
Proof. induction l as [|x l IH]; cbn; [lia|]. destruct (p x); cbn; lia. Qed.

Lemma a_del_length k (a : A) v0 : a_get k a = Some v0 -> S (length (a_del k a)) <= length a.
Proof.
  unfold a_get, a_del. induction a as [|[k' w] a IH]; [discriminate|].
  cbn [find filter fst]. destruct (N.eqb_spec k' k); cbn [negb length].
  - intros _. apply le_n_S. apply filter_len.
  - intros H. apply IH in H. lia.
Qed.

Lemma removelast_length {X} (p : X) (a : list X) : length (removelast (p :: a)) = length a.
Proof.
  revert p. induction a as [|x a IH]; intros p; [reflexivity|]. cbn [removelast length] in *.
  destruct a; [reflexivity|]. cbn [length]. f_equal. apply (IH x).
Qed.

Lemma delete_node_maxsz j w s : maxsz (delete_node j w s) = maxsz s.
Proof. unfold delete_node. destruct (key_of j (nmap s)); reflexivity. Qed.

Theorem store_refines s a k v : Inv s a -> (Z.of_nat (length a) <= maxsz s)%Z ->
  let s' := store k v s in let '(a', ev) := a_store (maxsz s) k v a in
  Inv s' a' /\ log s' = log s ++ ev /\ (Z.of_nat (length a') <= maxsz s)%Z /\ maxsz s' = maxsz s.
Proof.
  intros HI Hcap. unfold store, a_store. pose proof (lookup_spec s a k HI) as Hl.
  destruct (lookup k (nmap s)) as [i|].
  - rewrite (a_get_R (nmap s) (lst s) a k i (inv_keys _ _ HI) (inv_idsm _ _ HI) Hl (inv_R _ _ HI)).
    assert (exists v0, lst_val i (lst s) = Some v0) as [v0 Ev].
    { pose proof (inv_onto _ _ HI k i Hl) as Hin. apply in_map_iff in Hin as ([i' v0] & E & Hin). cbn in E. subst i'.
      unfold lst_val. destruct (find (fun p => N.eqb (fst p) i) (lst s)) as [p|] eqn:Ef; [eexists; reflexivity|].
      eapply find_none in Ef; [|exact Hin]. cbn in Ef. now rewrite N.eqb_refl in Ef. }
    rewrite Ev. split; [now apply inv_touch|]. split; [now rewrite app_nil_r|]. split; [|reflexivity].
    pose proof (a_get_R (nmap s) (lst s) a k i (inv_keys _ _ HI) (inv_idsm _ _ HI) Hl (inv_R _ _ HI)) as Eg.
    rewrite Ev in Eg. apply a_del_length in Eg. cbn [length]. lia.
  - rewrite (a_get_none _ _ _ _ (inv_R _ _ HI) Hl).
    pose proof (inv_insert s a k v HI Hl) as HI1. cbn zeta.
    set (s1 := upd s (delcnt s) ((k, next s) :: nmap s) ((next s, v) :: lst s) (N.succ (next s)) (log s)) in *.
    change (length (lst s1)) with (S (length (lst s))). cbn [length].
    rewrite (R_length _ _ _ (inv_R _ _ HI)).
    destruct (Z.ltb_spec (maxsz s) (Z.of_nat (S (length a)))).
    + destruct (last (lst s1) (next s, v)) as [j w] eqn:El.
      destruct (inv_evict_last s1 ((k, v) :: a) (next s, v) (k, v) j w HI1 ltac:(cbn; congruence) El) as [HI2 Hlog].
      split; [exact HI2|]. split; [exact Hlog|]. split.
      * rewrite removelast_length. exact Hcap.
      * rewrite delete_node_maxsz. reflexivity.
    + split; [exact HI1|]. split; [now rewrite app_nil_r|]. split; [cbn [length]; lia|reflexivity].
Qed.

(* ---------- Delete ---------- *)
Lemma inv_delete s a k i v : Inv s a -> In (k, i) (nmap s) -> lst_val i (lst s) = Some v ->
  Inv (delete_node i v s) (a_del k a) /\ log (delete_node i v s) = log s ++ [(k, v)].
Proof.
  intros HI Hk Hv. unfold delete_node, key_of.
  rewrite (find_id_some _ k i (inv_idsm _ _ HI) Hk). cbn [option_map fst]. split; [|reflexivity].
  destruct HI. constructor; cbn.
  - apply (R_weaken (nmap s)); [|apply R_del; assumption].
    intros k' i' H1 H2. unfold map_del. apply filter_In. split; [assumption|]. cbn.
    destruct (N.eqb_spec k' k) as [->|]; [|reflexivity].
    assert (i' = i).
    { pose proof (find_key_some _ k i' inv_keys0 H1) as E1. pose proof (find_key_some _ k i inv_keys0 Hk) as E2. congruence. }
    subst i'. apply in_lst_del in H2. tauto.
  - apply NoDup_filter_map; assumption.
  - apply NoDup_filter_map; assumption.
  - apply NoDup_filter_map; assumption.
  - intros k' i' H. apply filter_In in H as [H Hk']. cbn in Hk'.
    assert (i' <> i).
    { intros ->. pose proof (find_id_some _ k' i inv_idsm0 H) as E1. pose proof (find_id_some _ k i inv_idsm0 Hk) as E2.
      assert (k' = k) by congruence. subst. now rewrite N.eqb_refl in Hk'. }
    apply in_lst_del. split; [eapply inv_onto0; eassumption|assumption].
  - intros k' i' H. apply filter_In in H as [H _]. eapply inv_fresh0; eassumption.
  - apply NoDup_filter_map; assumption.
Qed.

Lemma lst_val_onto s a k i : Inv s a -> In (k, i) (nmap s) -> exists v, lst_val i (lst s) = Some v.
Proof.
  intros HI Hl. pose proof (inv_onto _ _ HI k i Hl) as Hin.
  apply in_map_iff in Hin as ([i' v0] & E & Hin). cbn in E. subst i'.
  unfold lst_val. destruct (find (fun p => N.eqb (fst p) i) (lst s)) as [p|] eqn:Ef; [eexists; reflexivity|].
  eapply find_none in Ef; [|exact Hin]. cbn in Ef. now rewrite N.eqb_refl in Ef.
Qed.

Theorem delete_refines s a k : Inv s a ->
  let s' := del k s in let '(a', ev) := a_delete k a in
  Inv s' a' /\ log s' = log s ++ ev /\ (length a' <= length a)%nat /\ maxsz s' = maxsz s.
Proof.
  intros HI. unfold del, a_delete. pose proof (lookup_spec s a k HI) as Hl.
  destruct (lookup k (nmap s)) as [i|].
  - rewrite (a_get_R (nmap s) (lst s) a k i (inv_keys _ _ HI) (inv_idsm _ _ HI) Hl (inv_R _ _ HI)).
    destruct (lst_val_onto s a k i HI Hl) as [v Ev]. rewrite Ev.
    destruct (inv_delete s a k i v HI Hl Ev) as [HI' Hlog].
    split; [exact HI'|]. split; [exact Hlog|]. split; [apply filter_len|apply delete_node_maxsz].
  - rewrite (a_get_none _ _ _ _ (inv_R _ _ HI) Hl). split; [exact HI|]. split; [now rewrite app_nil_r|]. split; [lia|reflexivity].
Qed.

(* ---------- Len never returns the inconsistency sentinel ---------- *)
Lemma inv_lengths s a : Inv s a -> length (lst s) = length (nmap s).
Proof.
  intros HI. apply Nat.le_antisymm.
  - rewrite <- (map_length fst (lst s)), <- (map_length snd (nmap s)).
    apply NoDup_incl_length; [apply (inv_idsl _ _ HI)|].
    intros i Hi. apply in_map_iff in Hi as ([i' v] & E & Hin). cbn in E. subst i'.
    destruct (R_in_lst _ _ _ _ _ (inv_R _ _ HI) Hin) as (k & Hk & _).
    change i with (snd (k, i)). now apply in_map.
  - rewrite <- (map_length fst (lst s)), <- (map_length snd (nmap s)).
    apply NoDup_incl_length; [apply (inv_idsm _ _ HI)|].
    intros i Hi. apply in_map_iff in Hi as ([k i'] & E & Hin). cbn in E. subst i'.
    eapply inv_onto; eassumption.
Qed.

Theorem len_refines s a : Inv s a -> len s = Z.of_nat (length a).
Proof.
  intros HI. unfold len. rewrite (inv_lengths s a HI), Nat.eqb_refl.
  rewrite <- (inv_lengths s a HI). now rewrite (R_length _ _ _ (inv_R _ _ HI)).
Qed.

(* ---------- one step, any operation ---------- *)
Theorem step_refines s a o : Inv s a -> (Z.of_nat (length a) <= maxsz s)%Z ->
  let '(s', x) := step s o in let '(a', x', ev) := a_step (maxsz s) a o in
  x = x' /\ Inv s' a' /\ log s' = log s ++ ev /\ (Z.of_nat (length a') <= maxsz s)%Z /\ maxsz s' = maxsz s.
Proof.
  intros HI Hcap. destruct o as [k v|k|k|]; cbn [step a_step].
  - pose proof (store_refines s a k v HI Hcap) as H. cbv zeta in H.
    destruct (a_store (maxsz s) k v a) as [a' ev]. tauto.
  - pose proof (load_refines s a k HI) as H.
    destruct (load k s) as [s' r] eqn:El. destruct (a_load k a) as [a' r'] eqn:Ea.
    destruct H as (-> & HI' & Hlog). split; [reflexivity|]. split; [exact HI'|]. split; [now rewrite app_nil_r|].
    split.
    + unfold a_load in Ea. destruct (a_get k a) as [v|] eqn:Eg; inversion Ea; subst; [|exact Hcap].
      apply a_del_length in Eg. cbn [length]. lia.
    + assert (Hm : forall k0 s0, maxsz (fst (load k0 s0)) = maxsz s0).
      { intros k0 s0. unfold load. destruct (lookup k0 (nmap s0)) as [i0|]; [|reflexivity].
        destruct (lst_val i0 (lst s0)); reflexivity. }
      match goal with E : load ?k0 s = (s', r') |- _ => specialize (Hm k0 s); rewrite E in Hm; exact Hm end.
  - pose proof (delete_refines s a k HI) as H. cbv zeta in H.
    destruct (a_delete k a) as [a' ev]. destruct H as (H1 & H2 & H3 & H4).
    split; [reflexivity|]. split; [exact H1|]. split; [exact H2|]. split; [lia|exact H4].
  - split; [now rewrite (len_refines s a HI)|]. split; [exact HI|]. split; [now rewrite app_nil_r|]. split; [exact Hcap|reflexivity].
Qed.

(* ---------- every history ---------- *)
Theorem run_refines ops : forall s a, Inv s a -> (Z.of_nat (length a) <= maxsz s)%Z ->
  let '(s', xs) := run s ops in let '(a', xs', evs) := a_run (maxsz s) a ops in
  xs = xs' /\ Inv s' a' /\ log s' = log s ++ evs /\ (Z.of_nat (length a') <= maxsz s)%Z.
Proof.
  induction ops as [|o ops IH]; intros s a HI Hcap; cbn [run a_run].
  - split; [reflexivity|]. split; [exact HI|]. split; [now rewrite app_nil_r|exact Hcap].
  - pose proof (step_refines s a o HI Hcap) as H.
    destruct (step s o) as [s1 x]. destruct (a_step (maxsz s) a o) as [[a1 x'] ev].
    destruct H as (-> & HI1 & Hlog1 & Hcap1 & Hmax).
    rewrite <- Hmax in Hcap1. specialize (IH s1 a1 HI1 Hcap1).
    destruct (run s1 ops) as [s2 xs]. rewrite Hmax in IH. destruct (a_run (maxsz s) a1 ops) as [[a2 xs'] evs].
    destruct IH as (-> & HI2 & Hlog2 & Hcap2).
    split; [reflexivity|]. split; [exact HI2|]. split; [|exact Hcap2].
    rewrite Hlog2, Hlog1. now rewrite app_assoc.
Qed.

Lemma R_dump m l a : R m l a -> map snd l = map snd a.
Proof. induction 1 as [|i v k l a Hin HR IH]; cbn; [reflexivity|now rewrite IH]. Qed.

Theorem run_refines_init c ops : (0 <= c)%Z ->
  let '(s', xs) := run (init c) ops in let '(a', xs', evs) := a_run c [] ops in
  xs = xs' /\ Inv s' a' /\ log s' = evs /\ (Z.of_nat (length a') <= c)%Z /\ dump s' = map snd a'.
Proof.
  intros Hc. pose proof (run_refines ops (init c) [] (inv_init c) ltac:(cbn; lia)) as H.
  destruct (run (init c) ops) as [s' xs]. cbn [maxsz init] in H.
  destruct (a_run c [] ops) as [[a' xs'] evs]. destruct H as (H1 & H2 & H3 & H4).
  split; [exact H1|]. split; [exact H2|]. split; [exact H3|]. split; [exact H4|].
  unfold dump. apply (R_dump _ _ _ (inv_R _ _ H2)).
Qed.
