(* C05: GetTimeFmt builds the documented layout, for every mask and every separator triple. *)
From PGV Require Import Base.Bytes Base.GoStr Base.GoNum Base.Utf8.
From PGV Require Import Model.RuleText Model.Value Model.Clause Model.Rules Run.Run_C05.
Open Scope Z_scope.

Lemma time_layout (b0 b1 b2 b3 b4 b5 : bool) (a b c : str) :
  let mask := (if b0 then 1 else 0) + (if b1 then 2 else 0) + (if b2 then 4 else 0)
              + (if b3 then 8 else 0) + (if b4 then 16 else 0) + (if b5 then 32 else 0) in
  get_time_fmt mask [a; b; c] = layout_spec mask a b c.
Proof.
  destruct b0, b1, b2, b3, b4, b5; cbv zeta; unfold get_time_fmt, layout_spec, join_fn;
    cbn; repeat (rewrite <- ?app_assoc; cbn [app]); rewrite ?app_nil_r; reflexivity.
Qed.
