(* Proofs about Model/RuleText.v against Spec/RuleTextSpec.v (property C14). *)
From PGV Require Import Base.Bytes Base.GoStr Base.Utf8 Regex.Re Regex.Rx.
From PGV Require Import Extracted.SourceConst Extracted.SourceRegex.
From PGV Require Import Model.RuleText Spec.RuleTextSpec.

(* ------------------------------------------------------------------ *)
(* 1. the splitter: the stack is a boolean in disguise                 *)
(* ------------------------------------------------------------------ *)

Fixpoint slow_b (sep : byte) (inq : bool) (tmp : str) (s : str) : list str :=
  match s with
  | [] => match tmp with [] => [] | _ => [rev tmp] end
  | v :: s' =>
    let tmp1 := if negb inq && negb (N.eqb v sep) then v :: tmp
                else if inq then v :: tmp else tmp in
    if negb inq && N.eqb v QUOTE then slow_b sep true tmp1 s'
    else if inq && N.eqb v QUOTE then slow_b sep false tmp1 s'
    else if N.eqb v sep && negb inq then rev tmp1 :: slow_b sep false [] s'
    else slow_b sep inq tmp1 s'
  end.

Definition stk_of (inq : bool) : stack := if inq then [QUOTE] else [].

(* the stack never holds more than the one opening quote, so the two-element Pop defect of
   internal/stack.go is unreachable *)
Lemma slow_stack sep inq tmp s : slow sep (stk_of inq) inq tmp s = slow_b sep inq tmp s.
Proof.
  revert inq tmp; induction s as [|v s IH]; intros inq tmp; [reflexivity|].
  cbn [slow slow_b]. destruct inq; cbn [negb andb stk_of st_is_empty st_last last].
  - (* inside quotes: stack = [QUOTE] *)
    rewrite (N.eqb_sym QUOTE v). destruct (N.eqb v QUOTE) eqn:Eq.
    + change (st_pop [QUOTE]) with (stk_of false). apply IH.
    + rewrite !andb_false_r. apply (IH true).
  - destruct (N.eqb v QUOTE) eqn:Eq.
    + change (st_append [] v) with [v]. apply N.eqb_eq in Eq. subst v. apply (IH true).
    + rewrite !andb_true_r. destruct (N.eqb v sep).
      * f_equal. apply (IH false).
      * apply (IH false).
Qed.

Lemma slow_start sep s : slow sep [] false [] s = slow_b sep false [] s.
Proof. apply (slow_stack sep false [] s). Qed.

Lemma slow_b_join sep inq tmp s : sep <> QUOTE ->
  join1 sep (slow_b sep inq tmp s) = rev tmp ++ s \/
  join1 sep (slow_b sep inq tmp s) ++ [sep] = rev tmp ++ s.
Proof.
  intros Hsep. revert inq tmp; induction s as [|v s IH]; intros inq tmp.
  - cbn. destruct tmp; cbn; left; now rewrite ?app_nil_r.
  - cbn [slow_b].
    destruct inq; cbn [negb andb].
    + destruct (N.eqb_spec v QUOTE) as [->|Hq].
      * destruct (IH false (QUOTE :: tmp)) as [H|H]; [left|right]; rewrite H; cbn; now rewrite <- app_assoc.
      * rewrite andb_false_r. destruct (IH true (v :: tmp)) as [H|H]; [left|right]; rewrite H; cbn; now rewrite <- app_assoc.
    + destruct (N.eqb_spec v sep) as [->|Hs]; cbn [negb andb].
      * destruct (N.eqb_spec sep QUOTE); [contradiction|].
        destruct (slow_b sep false [] s) eqn:E.
        -- specialize (IH false []). rewrite E in IH. cbn in IH.
           destruct IH as [H|H].
           ++ right. cbn. rewrite <- H. reflexivity.
           ++ cbn in H. subst s. cbn in E. rewrite N.eqb_refl in E.
              destruct (N.eqb_spec sep QUOTE); [contradiction|]. cbn in E. discriminate.
        -- rewrite join1_cons by congruence. rewrite <- E.
           destruct (IH false []) as [H|H]; cbn in H.
           ++ left. now rewrite H.
           ++ right. rewrite <- app_assoc. cbn. f_equal. f_equal. exact H.
      * destruct (N.eqb_spec v QUOTE) as [->|Hq].
        -- destruct (IH true (QUOTE :: tmp)) as [H|H]; [left|right]; rewrite H; cbn; now rewrite <- app_assoc.
        -- destruct (IH false (v :: tmp)) as [H|H]; [left|right]; rewrite H; cbn; now rewrite <- app_assoc.
Qed.

(* splitting loses no characters (separator bytes below 0x80: the code converts the byte to a
   string through a rune, so a separator >= 0x80 would be searched as its two-byte encoding) *)
Theorem split_no_loss sep s : sep <> QUOTE -> (sep < 128)%N ->
  join1 sep (names_split sep s) = s \/ join1 sep (names_split sep s) ++ [sep] = s.
Proof.
  intros Hsep Hlt. unfold names_split. destruct s as [|c s]; [now left|].
  destruct (has_quote (c :: s)).
  - rewrite slow_start.
    apply (slow_b_join sep false [] (c :: s) Hsep).
  - apply N.ltb_lt in Hlt. rewrite Hlt. left. apply (split1_join1 sep [] (c :: s)).
Qed.

(* ------------------------------------------------------------------ *)
(* 2. commas inside balanced single quotes never split a rule           *)
(* ------------------------------------------------------------------ *)

(* a piece: quotes balanced, commas only inside quotes (the scanner of the spec) *)
Lemma slow_b_piece p : forall inq tmp rest,
  commas_quoted inq p = true ->
  slow_b COMMA inq tmp (p ++ rest) = slow_b COMMA false (rev p ++ tmp) rest.
Proof.
  induction p as [|c p IH]; intros inq tmp rest H; cbn in H.
  - destruct inq; [discriminate|reflexivity].
  - cbn [app slow_b]. change (N.eqb c 39%N) with (N.eqb c QUOTE) in H.
    change (N.eqb c 44%N) with (N.eqb c COMMA) in H.
    destruct (N.eqb_spec c QUOTE) as [->|Hq].
    + change (N.eqb QUOTE COMMA) with false.
      destruct inq; cbn [negb andb].
      * rewrite (IH false (QUOTE :: tmp) rest H). cbn. now rewrite <- app_assoc.
      * rewrite (IH true (QUOTE :: tmp) rest H). cbn. now rewrite <- app_assoc.
    + destruct (N.eqb c COMMA) eqn:Ec.
      * destruct inq; cbn [negb andb] in *; [|discriminate].
        rewrite (IH true (c :: tmp) rest H). cbn. now rewrite <- app_assoc.
      * cbn [andb] in H. rewrite andb_false_r. destruct inq; cbn [negb andb].
        -- rewrite (IH true (c :: tmp) rest H). cbn. now rewrite <- app_assoc.
        -- rewrite (IH false (c :: tmp) rest H). cbn. now rewrite <- app_assoc.
Qed.

Definition piece_ok (p : str) : Prop := commas_quoted false p = true /\ p <> [].

Lemma slow_b_pieces ps : Forall piece_ok ps ->
  slow_b COMMA false [] (join1 COMMA ps) = ps.
Proof.
  induction ps as [|p ps IH]; intros H; [reflexivity|].
  inversion H as [|? ? [Hp Hne] Hps]; subst.
  destruct ps as [|q ps].
  - cbn [join1]. rewrite <- (app_nil_r p) at 1. rewrite (slow_b_piece p false [] [] Hp).
    cbn. rewrite app_nil_r, rev_involutive. destruct (rev p) eqn:E; [|reflexivity].
    apply (f_equal (@rev _)) in E. rewrite rev_involutive in E. cbn in E. contradiction.
  - rewrite join1_cons by congruence.
    rewrite (slow_b_piece p false [] _ Hp). rewrite app_nil_r.
    cbn [slow_b]. change (N.eqb COMMA QUOTE) with false. rewrite N.eqb_refl. cbn [negb andb].
    rewrite rev_involutive. f_equal. apply IH. assumption.
Qed.

Lemma commas_quoted_noquote_nocomma p :
  has_quote p = false -> commas_quoted false p = true -> nomem COMMA p = true.
Proof.
  unfold has_quote, nomem. induction p as [|c p IH]; [reflexivity|].
  cbn [existsb forallb commas_quoted negb andb].
  rewrite (N.eqb_sym QUOTE c). change (N.eqb c 39%N) with (N.eqb c QUOTE).
  change (N.eqb c 44%N) with (N.eqb c COMMA).
  destruct (N.eqb c QUOTE); cbn [orb]; [discriminate|]. intros Hq.
  destruct (N.eqb c COMMA); cbn [negb andb]; [discriminate|]. apply IH. exact Hq.
Qed.

Lemma split1_app_nosep sep p cur rest : nomem sep p = true ->
  split1 sep cur (p ++ rest) = split1 sep (rev p ++ cur) rest.
Proof.
  unfold nomem. revert cur; induction p as [|c p IH]; intros cur H; [reflexivity|].
  cbn in H. apply andb_prop in H as [Hc Hp]. cbn [app split1].
  destruct (N.eqb c sep); [discriminate|]. rewrite IH by assumption. cbn. now rewrite <- app_assoc.
Qed.

Lemma split1_pieces sep ps : ps <> [] -> Forall (fun p => nomem sep p = true) ps ->
  split1 sep [] (join1 sep ps) = ps.
Proof.
  induction ps as [|p ps IH]; intros Hne H; [congruence|].
  inversion H as [|? ? Hp Hps]; subst.
  destruct ps as [|q ps].
  - cbn [join1]. rewrite <- (app_nil_r p) at 1. rewrite split1_app_nosep by assumption.
    cbn. now rewrite app_nil_r, rev_involutive.
  - rewrite join1_cons by congruence. rewrite split1_app_nosep by assumption.
    cbn [split1]. rewrite N.eqb_refl. rewrite app_nil_r, rev_involutive. f_equal.
    apply IH; [congruence|assumption].
Qed.

Lemma has_quote_app a b : has_quote (a ++ b) = has_quote a || has_quote b.
Proof. apply existsb_app. Qed.

Lemma has_quote_join ps : has_quote (join1 COMMA ps) = existsb has_quote ps.
Proof.
  induction ps as [|p ps IH]; [reflexivity|].
  destruct ps as [|q ps].
  - cbn [join1 existsb]. now rewrite orb_false_r.
  - rewrite join1_cons by congruence. rewrite has_quote_app.
    change (has_quote (COMMA :: join1 COMMA (q :: ps))) with (N.eqb QUOTE COMMA || has_quote (join1 COMMA (q :: ps))).
    rewrite IH. reflexivity.
Qed.

Theorem quoted_commas_never_split ps : Forall piece_ok ps ->
  names_split COMMA (join1 COMMA ps) = ps.
Proof.
  intros H. destruct ps as [|p0 ps0]; [reflexivity|]. set (ps := p0 :: ps0) in *.
  unfold names_split.
  destruct (join1 COMMA ps) eqn:Ej.
  - (* impossible: the first piece is non-empty *)
    exfalso. inversion H as [|? ? [_ Hne] _]; subst. subst ps.
    destruct ps0; cbn in Ej; [contradiction|]. destruct p0; [contradiction|discriminate].
  - rewrite <- Ej. destruct (has_quote (join1 COMMA ps)) eqn:Eq.
    + rewrite slow_start. now apply slow_b_pieces.
    + change (COMMA <? 128)%N with true. cbv iota. apply split1_pieces; [subst ps; congruence|].
      rewrite has_quote_join in Eq.
      rewrite Forall_forall in *. intros p Hin.
      apply commas_quoted_noquote_nocomma; [|apply (H p Hin)].
      destruct (has_quote p) eqn:E; [|reflexivity].
      exfalso. assert (existsb has_quote ps = true) by (apply existsb_exists; eauto). congruence.
Qed.

(* ------------------------------------------------------------------ *)
(* 3. the label: the source's IncludeZhRe is "contains a CJK rune"      *)
(* ------------------------------------------------------------------ *)

Lemma zh_patterns_eq :
  zh_patterns = [{| p_bol := false; p_body := Cat (Cls [(19968, 40869)%N]) Eps; p_eol := false |}].
Proof. reflexivity. Qed.

Lemma lang_star_any s : lang (Star Any) s.
Proof.
  induction s as [|c s IH]; [constructor|].
  change (c :: s) with ([c] ++ s). constructor; [constructor|assumption].
Qed.

Lemma search_cls rs s :
  matchb (Cat any_star (Cat (Cat (Cls rs) Eps) any_star)) s = existsb (in_cls rs) s.
Proof.
  apply eq_true_iff_eq. rewrite matchb_lang. rewrite existsb_exists. split.
  - intros H. apply lang_cat_inv in H as (a & t & -> & _ & H).
    apply lang_cat_inv in H as (m & b & -> & H & _).
    apply lang_cat_inv in H as (m1 & m2 & -> & H1 & H2).
    apply lang_cls_inv in H1 as (c & -> & Hc). exists c. split; [|assumption].
    apply in_or_app. right. cbn. now left.
  - intros (c & Hin & Hc). apply in_split in Hin as (a & b & ->).
    constructor; [apply lang_star_any|].
    change (c :: b) with (([c] ++ []) ++ b). constructor; [|apply lang_star_any].
    constructor; [now constructor|constructor].
Qed.

Lemma existsb_ext' {A} (f g : A -> bool) l : (forall x, f x = g x) -> existsb f l = existsb g l.
Proof. intros H; induction l as [|x l IH]; cbn; [reflexivity|now rewrite H, IH]. Qed.

Lemma has_zh_spec m : has_zh m = existsb is_cjk (decode m).
Proof.
  unfold has_zh, match_string, match_patterns. rewrite zh_patterns_eq. cbn [existsb].
  rewrite orb_false_r. unfold pattern_re. cbn [p_bol p_body p_eol].
  rewrite search_cls. apply existsb_ext'. intros c. unfold is_cjk. apply in_cls1.
Qed.

Lemma label_is_spec m : label m = label_spec ExplainEn ExplainZh m.
Proof. unfold label, label_spec. now rewrite has_zh_spec. Qed.

(* ------------------------------------------------------------------ *)
(* 4. builder text and parser                                           *)
(* ------------------------------------------------------------------ *)

Lemma rule_names_ok : VIn = k_in /\ VInclude = k_include /\ VRe = k_re.
Proof. repeat split; reflexivity. Qed.

Definition args_of (r : rule) : list str :=
  match r_val r, r_msg r with
  | [], None => []
  | v, None => [v]
  | v, Some m => [v; m]
  end.

Lemma wf_rule_inv r : wf_rule r = true ->
  r_key r <> [] /\ nomem EQ (r_key r) = true /\ nomem BAR (r_key r) = true /\
  nomem BAR (r_val r) = true /\
  (match r_val r with c :: _ => N.eqb c EQ = false | [] => True end) /\
  (str_eqb (r_key r) k_re = true ->
     match r_val r with [] => True | c :: _ => N.eqb c QUOTE = true /\ (2 <= length (r_val r))%nat end) /\
  (match r_msg r with Some m => m <> [] | None => True end) /\
  commas_quoted false (rule_text r) = true.
Proof.
  unfold wf_rule. cbv zeta. intros H.
  repeat match type of H with _ && _ = true => let H2 := fresh "Hw" in apply andb_prop in H as [H H2] end.
  repeat match goal with |- _ /\ _ => split end; try assumption.
  - destruct (r_key r); [discriminate|congruence].
  - destruct (r_val r) as [|c v]; [exact I|].
    match goal with Hx : negb (N.eqb c 61) = true |- _ => change EQ with 61%N; destruct (N.eqb c 61); [discriminate|reflexivity] end.
  - intros Ere. match goal with Hx : (if str_eqb (r_key r) k_re then _ else _) = true |- _ => rewrite Ere in Hx; rename Hx into Hre end.
    destruct (r_val r) as [|c v]; [exact I|]. apply andb_prop in Hre as [Hq Hl]. split; [exact Hq|].
    apply N.leb_le in Hl. lia.
  - destruct (r_msg r) as [m|]; [|exact I]. destruct m; [discriminate|congruence].
Qed.

Lemma key_cases k : (str_eqb k k_in || str_eqb k k_include = true /\ str_eqb k k_re = false)
  \/ (str_eqb k k_in || str_eqb k k_include = false).
Proof.
  destruct (str_eqb k k_in) eqn:E1; [left|destruct (str_eqb k k_include) eqn:E2; [left|right; reflexivity]].
  - apply str_eqb_eq in E1. subst. split; reflexivity.
  - apply str_eqb_eq in E2. subst. split; reflexivity.
Qed.

(* the builder writes the documented text *)
Theorem builder_text r : wf_rule r = true -> gen_kv (r_key r) (args_of r) = rule_text r.
Proof.
  intros H. apply wf_rule_inv in H as (Hk & Hke & Hkb & Hvb & Hv0 & Hre & Hm & Hcq).
  destruct r as [k v m]. cbn [r_key r_val r_msg] in *.
  unfold rule_text, args_of, gen_kv, value_spec, is_in_key, is_re_key. cbn [r_key r_val r_msg].
  destruct rule_names_ok as (-> & -> & ->).
  destruct v as [|c0 v'].
  - destruct m as [m|]; cbn; [reflexivity|now rewrite app_nil_r].
  - assert (Hbody :
      (if str_eqb k k_in || str_eqb k k_include then LPAREN :: (c0 :: v') ++ [RPAREN]
       else if str_eqb k k_re
            then (if Nat.ltb 1 (length (c0 :: v')) && (N.eqb c0 QUOTE || N.eqb (nth 1 (c0 :: v') 0%N) QUOTE)
                  then c0 :: v' else QUOTE :: (c0 :: v') ++ [QUOTE])
            else c0 :: v')
      = (if str_eqb k k_in || str_eqb k k_include then 40%N :: (c0 :: v') ++ [41%N] else c0 :: v')).
    { destruct (key_cases k) as [[-> _]| ->]; [reflexivity|].
      destruct (str_eqb k k_re) eqn:Ere; [|reflexivity].
      destruct (Hre eq_refl) as [Hq Hl]. rewrite Hq. cbn [orb].
      replace (Nat.ltb 1 (length (c0 :: v'))) with true; [reflexivity|].
      symmetry. apply Nat.ltb_lt. lia. }
    destruct m as [m|]; rewrite Hv0, Hbody; cbn [app]; rewrite <- ?app_assoc; cbn [app];
      rewrite ?app_nil_r; reflexivity.
Qed.

Lemma nomem_app c a b : nomem c (a ++ b) = nomem c a && nomem c b.
Proof. unfold nomem. apply forallb_app. Qed.

Lemma value_spec_nobar r : nomem 124 (r_val r) = true -> nomem 124 (value_spec r) = true.
Proof.
  intros H. unfold value_spec. destruct (r_val r) as [|c v] eqn:E; [reflexivity|].
  destruct (str_eqb (r_key r) k_in || str_eqb (r_key r) k_include); [|assumption].
  change (40%N :: (c :: v) ++ [41%N]) with ([40%N] ++ (c :: v) ++ [41%N]).
  rewrite !nomem_app, H. reflexivity.
Qed.

Lemma value_spec_nonempty r : r_val r <> [] -> value_spec r <> [].
Proof.
  unfold value_spec. destruct (r_val r) as [|c v]; [congruence|]. intros _.
  destruct (str_eqb (r_key r) k_in || str_eqb (r_key r) k_include); discriminate.
Qed.

Lemma ltb_len_app_cons {A} (a : list A) x (m : list A) : m <> [] ->
  Nat.ltb (length a + 1) (length (a ++ x :: m)) = true.
Proof. intros Hm. apply Nat.ltb_lt. rewrite app_length. cbn. destruct m; [congruence|cbn; lia]. Qed.

(* the parser recovers key, value and labelled message from the documented text *)
Theorem parse_rule_text r : wf_rule r = true ->
  parse_kv (rule_text r) = parsed_spec ExplainEn ExplainZh r.
Proof.
  intros H. apply wf_rule_inv in H as (Hk & Hke & Hkb & Hvb & Hv0 & Hre & Hmne & Hcq).
  destruct r as [k v m]. cbn [r_key r_val r_msg] in *.
  unfold parsed_spec, rule_text. cbn [r_key r_val r_msg].
  set (r := {| r_key := k; r_val := v; r_msg := m |}).
  assert (Hvs : nomem BAR (value_spec r) = true) by (apply value_spec_nobar; exact Hvb).
  destruct v as [|c0 v'] eqn:Ev.
  - (* value-less *)
    change (value_spec r) with (@nil byte). cbn [app].
    destruct m as [m|].
    + pose proof Hmne as Hm. change (k ++ 124%N :: m) with (k ++ BAR :: m).
      unfold parse_kv. rewrite (index_byte_app_hit BAR k m Hkb).
      rewrite (index_byte_app_skip EQ k (BAR :: m) Hke). cbn [index_byte].
      change (N.eqb BAR EQ) with false. cbv iota.
      rewrite (ltb_len_app_cons k BAR m Hm), firstn_app_len.
      replace (skipn (length k + 1) (k ++ BAR :: m)) with m by (now rewrite skipn_app_len).
      rewrite label_is_spec.
      destruct (index_byte EQ m) as [n|]; cbn [option_map]; [|reflexivity].
      replace (Nat.ltb (length k) (length k + S n)) with true by (symmetry; apply Nat.ltb_lt; lia).
      reflexivity.
    + rewrite app_nil_r. unfold parse_kv.
      rewrite (index_byte_none EQ k Hke), (index_byte_none BAR k Hkb). reflexivity.
  - (* with a value *)
    assert (Hne : value_spec r <> []) by (apply value_spec_nonempty; cbn; congruence).
    set (w := value_spec r) in *.
    destruct m as [m|].
    + pose proof Hmne as Hm.
      unfold parse_kv. cbn [app].
      change (k ++ 61%N :: w ++ 124%N :: m) with (k ++ EQ :: (w ++ BAR :: m)).
      rewrite (index_byte_app_hit EQ k _ Hke).
      rewrite (index_byte_app_skip BAR k _ Hkb). cbn [index_byte]. change (N.eqb EQ BAR) with false.
      rewrite (index_byte_app_hit BAR w m Hvs). cbn [option_map].
      replace (Nat.ltb (length k + S (length w)) (length k)) with false by (symmetry; apply Nat.ltb_ge; lia).
      rewrite firstn_app_len.
      replace (skipn (length k + 1) (k ++ EQ :: w ++ BAR :: m)) with (w ++ BAR :: m)
        by (now rewrite skipn_app_len).
      rewrite (index_byte_app_hit BAR w m Hvs).
      rewrite (ltb_len_app_cons w BAR m Hm), firstn_app_len, skipn_app_len.
      cbn [skipn]. now rewrite label_is_spec.
    + unfold parse_kv. cbn [app]. rewrite app_nil_r.
      change (k ++ 61%N :: w) with (k ++ EQ :: w).
      rewrite (index_byte_app_hit EQ k w Hke).
      rewrite (index_byte_app_skip BAR k _ Hkb). cbn [index_byte]. change (N.eqb EQ BAR) with false.
      rewrite (index_byte_none BAR w Hvs). cbn [option_map].
      rewrite firstn_app_len.
      replace (skipn (length k + 1) (k ++ EQ :: w)) with w by (now rewrite skipn_app_len).
      rewrite (index_byte_none BAR w Hvs). reflexivity.
Qed.

(* ------------------------------------------------------------------ *)
(* 5. the whole list: builder -> Set -> Get -> split -> parse            *)
(* ------------------------------------------------------------------ *)

Lemma rm_get_raw_put r f v : rm_get_raw (rm_put r f v) f = Some v.
Proof.
  induction r as [|[k v0] r IH]; cbn.
  - now rewrite str_eqb_refl.
  - destruct (str_eqb k f) eqn:E; cbn; rewrite E; [reflexivity|exact IH].
Qed.

Lemma rm_put_put r f v v' : rm_put (rm_put r f v) f v' = rm_put r f v'.
Proof.
  induction r as [|[k v0] r IH]; cbn.
  - now rewrite str_eqb_refl.
  - destruct (str_eqb k f) eqn:E; cbn; rewrite E; [reflexivity|now rewrite IH].
Qed.

Definition field_ok (f : str) : Prop := f <> [] /\ nomem COMMA f = true.

Lemma rm_set_single r f rules : field_ok f -> rm_set r f rules = rm_set1 r f rules.
Proof.
  intros [Hne Hnc]. unfold rm_set.
  rewrite <- (app_nil_r f) at 1. rewrite split1_app_nosep by assumption. cbn.
  now rewrite app_nil_r, rev_involutive.
Qed.

Lemma fold_sets f (texts : list str) : field_ok f -> forall r t0,
  rm_get_raw r f = Some t0 ->
  exists r', fold_left (fun acc x => rm_set acc f [x]) texts r = r' /\
             rm_get_raw r' f = Some (fold_left (fun acc x => acc ++ COMMA :: x) texts t0).
Proof.
  intros Hf. induction texts as [|x texts IH]; intros r t0 Hr; cbn [fold_left].
  - eauto.
  - rewrite rm_set_single by assumption. unfold rm_set1. rewrite Hr. cbn [join1].
    apply IH. apply rm_get_raw_put.
Qed.

Lemma fold_join (texts : list str) t0 :
  fold_left (fun acc x => acc ++ COMMA :: x) texts t0 = join1 COMMA (t0 :: texts) .
Proof.
  revert t0; induction texts as [|x texts IH]; intros t0; cbn [fold_left]; [reflexivity|].
  rewrite IH. destruct texts as [|y texts].
  - reflexivity.
  - change (join1 COMMA ((t0 ++ COMMA :: x) :: y :: texts))
      with ((t0 ++ COMMA :: x) ++ COMMA :: join1 COMMA (y :: texts)).
    change (join1 COMMA (t0 :: x :: y :: texts))
      with (t0 ++ COMMA :: x ++ COMMA :: join1 COMMA (y :: texts)).
    now rewrite <- app_assoc.
Qed.

Lemma rm_get_some r f v : f <> [] -> rm_get_raw r f = Some v -> rm_get r f = v.
Proof.
  intros Hf H. unfold rm_get. destruct r as [|p r]; [discriminate|].
  destruct f; [congruence|]. now rewrite H.
Qed.

Lemma fold_left_map' {A B C} (g : A -> B -> A) (h : C -> B) (l : list C) a :
  fold_left g (map h l) a = fold_left (fun acc x => g acc (h x)) l a.
Proof. revert a; induction l as [|x l IH]; intros a; cbn; [reflexivity|apply IH]. Qed.

Definition gen_rule (r : rule) : str := gen_kv (r_key r) (args_of r).

Lemma rule_text_piece r : wf_rule r = true -> piece_ok (rule_text r).
Proof.
  intros H. apply wf_rule_inv in H as (Hk & _ & _ & _ & _ & _ & _ & Hcq). split; [exact Hcq|].
  unfold rule_text. destruct (r_key r); [congruence|discriminate].
Qed.

Theorem list_roundtrip f (rules : list rule) :
  field_ok f -> forallb wf_rule rules = true ->
  map parse_kv (names_split COMMA
     (rm_get (fold_left (fun acc r => rm_set acc f [gen_rule r]) rules []) f))
  = map (parsed_spec ExplainEn ExplainZh) rules.
Proof.
  intros Hf Hwf. rewrite forallb_forall in Hwf.
  destruct rules as [|r0 rules].
  - reflexivity.
  - cbn [fold_left]. rewrite rm_set_single by assumption. unfold rm_set1. cbn [rm_get_raw rm_put join1].
    rewrite <- (fold_left_map' (fun acc x => rm_set acc f [x]) gen_rule).
    destruct (fold_sets f (map gen_rule rules) Hf [(f, gen_rule r0)] (gen_rule r0)) as (r' & -> & Hget).
    { cbn. now rewrite str_eqb_refl. }
    rewrite (rm_get_some _ f _ (proj1 Hf) Hget). rewrite fold_join.
    change (gen_rule r0 :: map gen_rule rules) with (map gen_rule (r0 :: rules)).
    assert (Hgen : map gen_rule (r0 :: rules) = map rule_text (r0 :: rules)).
    { apply map_ext_in. intros r Hin. apply builder_text. now apply Hwf. }
    rewrite Hgen. rewrite quoted_commas_never_split.
    + rewrite map_map. apply map_ext_in. intros r Hin. apply parse_rule_text. now apply Hwf.
    + apply Forall_forall. intros p Hp. apply in_map_iff in Hp as (r & <- & Hin).
      apply rule_text_piece. now apply Hwf.
Qed.
