(* GoPtrProofs.v — RemoveValuePtr from the source text looks through any number of pointer levels: it computes the
   model's remove_ptr on every value. *)
From Coq Require Import String.
From PGV Require Import Base.Bytes Base.MiniGo Extracted.SourceFnsPtr Model.Value Model.GoPtr.

Theorem remove_ptr_from_source v : run_remove_ptr fn_RemoveValuePtr v = Some (remove_ptr v).
Proof.
  unfold run_remove_ptr. cbn [fn_params fn_body fn_RemoveValuePtr String.eqb Ascii.eqb Bool.eqb].
  set (c := EBin _ _ _). set (b := [SAssign _ _ _]).
  assert (Hc : forall w, pcond "t" c w = Some (is_ptr w)) by (intros w; reflexivity).
  assert (Hb : forall w, pbody "t" b w = elem w) by (intros w; reflexivity).
  clearbody c b.
  induction v; cbn [ptr_depth ploop remove_ptr]; rewrite Hc; cbn [is_ptr]; try reflexivity.
  - rewrite Hb. cbn [elem ploop]. rewrite Hc. reflexivity.
  - rewrite Hb. cbn [elem]. exact IHv.
Qed.
