(* GoSplitProofs.v — the body of ValidNamesSplit extracted from /repo computes the model's names_split. *)
From Coq Require Import String.
From PGV Require Import Base.Bytes Base.GoStr Base.Utf8 Base.MiniGo Extracted.SourceConst Extracted.SourceFnsSplit.
From PGV Require Import Model.RuleText Model.GoSplit.
Open Scope Z_scope.

(* ---------- one iteration of the slow path, on the loop's variables ---------- *)
Record lst := { l_stk : stack; l_inq : bool; l_tmp : str; l_res : list str }.

Definition step1 (sep v : byte) (x : lst) : lst :=
  let tmp1 := if negb (l_inq x) && negb (N.eqb v sep) then l_tmp x ++ [v]
              else if l_inq x then l_tmp x ++ [v] else l_tmp x in
  if negb (l_inq x) && N.eqb v QUOTE then {| l_stk := st_append (l_stk x) v; l_inq := true; l_tmp := tmp1; l_res := l_res x |}
  else if l_inq x && N.eqb (st_last (l_stk x)) v then {| l_stk := st_pop (l_stk x); l_inq := false; l_tmp := tmp1; l_res := l_res x |}
  else if N.eqb v sep && st_is_empty (l_stk x) then {| l_stk := l_stk x; l_inq := l_inq x; l_tmp := []; l_res := l_res x ++ [tmp1] |}
  else {| l_stk := l_stk x; l_inq := l_inq x; l_tmp := tmp1; l_res := l_res x |}.

Definition finish (x : lst) : list str := l_res x ++ (match l_tmp x with [] => [] | t => [t] end).

Lemma slow_steps sep : forall s x,
  finish (fold_left (fun a v => step1 sep v a) s x) = l_res x ++ slow sep (l_stk x) (l_inq x) (rev (l_tmp x)) s.
Proof.
  induction s as [|v s IH]; intros [stk inq tmp res]; cbn [fold_left slow l_stk l_inq l_tmp l_res].
  - unfold finish. cbn [l_res l_tmp]. destruct tmp as [|t0 tmp']; [reflexivity|].
    destruct (rev (t0 :: tmp')) eqn:E; [apply (f_equal (@List.length _)) in E; rewrite rev_length in E; discriminate|].
    now rewrite <- E, rev_involutive.
  - rewrite IH. unfold step1. cbn [l_stk l_inq l_tmp l_res].
    set (tmp1m := if negb inq && negb (N.eqb v sep) then v :: rev tmp else if inq then v :: rev tmp else rev tmp).
    set (tmp1 := if negb inq && negb (N.eqb v sep) then tmp ++ [v] else if inq then tmp ++ [v] else tmp).
    assert (Et : rev tmp1 = tmp1m).
    { subst tmp1 tmp1m. destruct (negb inq && negb (N.eqb v sep)); [now rewrite rev_app_distr|].
      destruct inq; [now rewrite rev_app_distr|reflexivity]. }
    destruct (negb inq && N.eqb v QUOTE); cbn [l_stk l_inq l_tmp l_res]; [now rewrite Et|].
    destruct (inq && N.eqb (st_last stk) v); cbn [l_stk l_inq l_tmp l_res]; [now rewrite Et|].
    destruct (N.eqb v sep && st_is_empty stk); cbn [l_stk l_inq l_tmp l_res rev].
    + rewrite <- app_assoc. cbn [app]. rewrite <- Et, rev_involutive. reflexivity.
    + now rewrite Et.
Qed.

(* ---------- the for loop, generically ---------- *)
Lemma for_loop_steps (cond : senv -> sv) (post body : senv -> sflow) (P : nat -> lst -> senv -> Prop) (s : str) (sep : byte) :
  (forall i x e v, P i x e -> nth_error s i = Some v ->
     cond e = SB true /\ exists e1 e2, (body e = FNext e1 \/ body e = FCont e1) /\ post e1 = FNext e2 /\ P (S i) (step1 sep v x) e2) ->
  (forall x e, P (List.length s) x e -> cond e = SB false) ->
  forall n i x e fuel, P i x e -> (i + n = List.length s)%nat -> (n < fuel)%nat ->
  exists e', for_loop fuel cond post body e = FNext e' /\
             P (List.length s) (fold_left (fun a v => step1 sep v a) (skipn i s) x) e'.
Proof.
  intros Hit Hend. induction n as [|n IH]; intros i x e fuel HP Hi Hf; (destruct fuel as [|f]; [lia|]); cbn [for_loop].
  - assert (i = List.length s) by lia. subst i. rewrite (Hend x e HP). rewrite skipn_all. exists e. split; [reflexivity|exact HP].
  - destruct (nth_error s i) as [v|] eqn:Ev; [|apply nth_error_None in Ev; lia].
    destruct (Hit i x e v HP Ev) as (Hc & e1 & e2 & Hb & Hp & HP').
    rewrite Hc. destruct Hb as [Hb|Hb]; rewrite Hb, Hp;
      (destruct (IH (S i) (step1 sep v x) e2 f HP' ltac:(lia) ltac:(lia)) as (e' & E & HPf);
       exists e'; split; [exact E|];
       assert (Es : skipn i s = v :: skipn (S i) s)
         by (clear -Ev; revert i Ev; induction s as [|y s IHs]; intros [|i] Ev; cbn in *; try discriminate; [now inversion Ev|now apply IHs]);
       rewrite Es; exact HPf).
Qed.

Ltac sstep :=
  lazy beta iota zeta delta
    [run_split sexec sexec_list seval sset sempty fn_body fn_ValidNamesSplit skipn
     String.eqb Ascii.eqb Bool.eqb andb orb negb].

Lemma has_quote_index s : index_byte 39%N s = None <-> has_quote s = false.
Proof.
  unfold has_quote, QUOTE. induction s as [|c s IH]; cbn [index_byte existsb]; [tauto|].
  rewrite (N.eqb_sym 39 c). destruct (N.eqb c 39); cbn [orb]; [split; discriminate|].
  destruct (index_byte 39%N s); [split; [discriminate|]; intros H; apply IH in H; discriminate|].
  split; intros _; [now apply IH|reflexivity].
Qed.

Lemma sexec_list_app fuel l1 : forall l2 e,
  sexec_list fuel (l1 ++ l2) e = match sexec_list fuel l1 e with FNext e1 => sexec_list fuel l2 e1 | other => other end.
Proof.
  induction l1 as [|x l1 IH]; intros l2 e; cbn [app sexec_list]; [reflexivity|].
  destruct (sexec fuel x e); try reflexivity. apply IH.
Qed.

Definition sep_of (seps : list byte) : byte := match seps with [] => COMMA | b :: _ => b end.

Ltac sstep' := sstep; cbn [List.length Z.of_nat Z.ltb Z.leb Z.compare Pos.of_succ_nat nth_error Z.to_nat Z.opp].

Lemma zn_ltb (a : N) (k : Z) (kn : N) : k = Z.of_N kn -> (Z.of_N a <? k) = (a <? kn)%N.
Proof. intros ->. destruct (N.ltb_spec a kn); [apply Z.ltb_lt|apply Z.ltb_ge]; lia. Qed.
Lemma zn_eqb (a b : N) : (Z.of_N a =? Z.of_N b) = (a =? b)%N.
Proof. destruct (N.eqb_spec a b) as [->|H]; [apply Z.eqb_refl|apply Z.eqb_neq; lia]. Qed.

Lemma fast_path (sep : byte) (s : str) : (sep < 256)%N ->
  go_split s (byte_string (Z.of_N sep)) = (if (sep <? 128)%N then split1 sep [] s else split s (encode1 sep)).
Proof.
  intros Hlt. unfold byte_string. rewrite (zn_ltb sep 128 128 eq_refl), N2Z.id.
  destruct (N.ltb_spec sep 128) as [H|H]; [reflexivity|].
  unfold encode1. replace (sep <? 128)%N with false by (symmetry; apply N.ltb_ge; exact H).
  replace (sep <? 2048)%N with true by (symmetry; apply N.ltb_lt; lia). reflexivity.
Qed.

(* the loop invariant: the Go variables hold the abstract loop state *)
Definition Pinv (s : str) (sep : byte) (i : nat) (x : lst) (e : senv) : Prop :=
  e "s"%string = SS s /\ e "l"%string = SZ (Z.of_nat (List.length s)) /\ e "defaultSep"%string = SZ (Z.of_N sep) /\
  e "i"%string = SZ (Z.of_nat i) /\ e "stack"%string = SK (l_stk x) /\ e "isParseSingleQuotes"%string = SB (l_inq x) /\
  e "tmp"%string = SS (l_tmp x) /\ e "res"%string = SL (l_res x).

Lemma iter_ok (body post : senv -> sflow) (e : senv) (P : senv -> Prop) :
  match body e with
  | FNext e1 | FCont e1 => match post e1 with FNext e2 => P e2 | _ => False end
  | _ => False
  end ->
  exists e1 e2, (body e = FNext e1 \/ body e = FCont e1) /\ post e1 = FNext e2 /\ P e2.
Proof.
  destruct (body e) as [e1|e1|v|] eqn:Eb; try (intros []); (destruct (post e1) as [e2| | |] eqn:Ep; try (intros []); intros HP;
    exists e1, e2; split; [auto|split; [exact Ep|exact HP]]).
Qed.

Ltac bstep H1 H2 H3 H4 H5 H6 H7 H8 Hv Hv0 Hv256 Hi0 :=
  sstep'; rewrite ?H1, ?H2, ?H3, ?H4, ?H5, ?H6, ?H7, ?H8, ?Nat2Z.id, ?Hv, ?N2Z.id, ?Hv0, ?Hv256, ?Hi0;
  change 39 with (Z.of_N 39); rewrite ?zn_eqb.

Theorem split_from_source s seps : forallb (fun c => N.ltb c 256) s = true -> (sep_of seps < 256)%N ->
  run_split fn_ValidNamesSplit s seps = Some (names_split (sep_of seps) s).
Proof.
  intros Hs Hsep. unfold names_split.
  destruct s as [|c0 s0]; [reflexivity|]. set (s := c0 :: s0) in *.
  assert (Hne : str_eqb s [] = false) by reflexivity.
  assert (Hgen : forall eg : senv, eg "s"%string = SS s -> eg "defaultSep"%string = SZ (Z.of_N (sep_of seps)) ->
     match sexec_list (S (List.length s)) (skipn 3 (fn_body fn_ValidNamesSplit)) eg with
     | FRet (SL l) => Some l | _ => None end =
     Some (if has_quote s then slow (sep_of seps) [] false [] s
           else if (sep_of seps <? 128)%N then split1 (sep_of seps) [] s else split s (encode1 (sep_of seps)))).
  { intros eg He_s He_d. sstep'. rewrite He_s. sstep'. change (Z.to_N 39) with 39%N.
    destruct (index_byte 39%N s) as [n|] eqn:Ei.
    - assert (Hq : has_quote s = true).
      { destruct (has_quote s) eqn:E; [reflexivity|]. apply has_quote_index in E. congruence. }
      rewrite Hq. sstep'. replace (Z.of_nat n =? -1) with false by (symmetry; apply Z.eqb_neq; lia). sstep'. rewrite ?He_s. sstep'.
      match goal with |- context[for_loop ?F ?C ?P ?B ?E] =>
        set (cnd := C); set (pst := P); set (bdy := B); set (e0 := E) end.
      assert (Hend : forall x e, Pinv s (sep_of seps) (List.length s) x e -> cnd e = SB false).
      { intros x e (H1 & H2 & H3 & H4 & H5 & H6 & H7 & H8). subst cnd. sstep'. rewrite H4, H2. f_equal. apply Z.ltb_irrefl. }
      assert (Hit : forall i x e v, Pinv s (sep_of seps) i x e -> nth_error s i = Some v ->
                cnd e = SB true /\ exists e1 e2, (bdy e = FNext e1 \/ bdy e = FCont e1) /\ pst e1 = FNext e2 /\
                                                   Pinv s (sep_of seps) (S i) (step1 (sep_of seps) v x) e2).
      { intros i [stk inq tmp res] e v (H1 & H2 & H3 & H4 & H5 & H6 & H7 & H8) Hv. cbn [l_stk l_inq l_tmp l_res] in *.
        assert (Hi : (i < List.length s)%nat) by (apply nth_error_Some; congruence).
        assert (Hv256 : (Z.of_N v <? 256) = true).
        { rewrite forallb_forall in Hs. pose proof (Hs v (nth_error_In _ _ Hv)) as H. apply N.ltb_lt in H. apply Z.ltb_lt. lia. }
        assert (Hv0 : (0 <=? Z.of_N v) = true) by (apply Z.leb_le; lia).
        assert (Hi0 : (0 <=? Z.of_nat i) = true) by (apply Z.leb_le; lia).
        split.
        - subst cnd. sstep'. rewrite H4, H2. f_equal. apply Z.ltb_lt. apply Nat2Z.inj_lt in Hi. exact Hi.
        - subst bdy.
          assert (Hsi : Z.of_nat i + 1 = Z.of_nat (S i)) by lia.
          (* step through the body; split on a condition only when the execution meets it *)
          apply iter_ok. subst pst.
          repeat (bstep H1 H2 H3 H4 H5 H6 H7 H8 Hv Hv0 Hv256 Hi0;
                  try match goal with
                      | |- context[if inq then _ else _] => destruct inq
                      | |- context[if N.eqb ?a ?b then _ else _] => destruct (N.eqb a b) eqn:?
                      | |- context[if st_is_empty ?k then _ else _] => destruct (st_is_empty k) eqn:?
                      end).
          all: try match goal with H : false = true |- _ => discriminate H | H : true = false |- _ => discriminate H end.
          all: unfold Pinv, step1, QUOTE; cbn [l_stk l_inq l_tmp l_res negb andb];
               repeat match goal with H : N.eqb _ _ = _ |- _ => rewrite H end;
               repeat match goal with H : st_is_empty _ = _ |- _ => rewrite H end;
               cbn [l_stk l_inq l_tmp l_res negb andb];
               repeat split; sstep'; rewrite ?H1, ?H2, ?H3, ?H4, ?H5, ?H6, ?H7, ?H8, ?Hsi; reflexivity. }
      set (x0 := {| l_stk := []; l_inq := false; l_tmp := []; l_res := [] |}).
      assert (Hp0 : Pinv s (sep_of seps) 0 x0 e0).
      { subst e0 x0. unfold Pinv. cbn [l_stk l_inq l_tmp l_res]. repeat split; sstep'; rewrite ?He_s, ?He_d; reflexivity. }
      destruct (for_loop_steps cnd pst bdy (Pinv s (sep_of seps)) s (sep_of seps) Hit Hend (List.length s) 0%nat x0 e0 (S (List.length s)) Hp0 eq_refl (Nat.lt_succ_diag_r _))
        as (e' & E & HP').
      rewrite E. clear E Hit Hend Hp0. cbn [skipn] in HP'.
      pose proof (slow_steps (sep_of seps) s x0) as Hslow. unfold x0 in Hslow at 2 3 4 5. cbn [l_stk l_inq l_tmp l_res rev app] in Hslow.
      destruct (fold_left (fun a v => step1 (sep_of seps) v a) s x0) as [stk inq tmp res].
      destruct HP' as (H1 & H2 & H3 & H4 & H5 & H6 & H7 & H8). cbn [l_stk l_inq l_tmp l_res] in *.
      unfold finish in Hslow. cbn [l_tmp l_res] in Hslow. rewrite <- Hslow.
      destruct tmp as [|t0 tmp']; repeat (sstep'; rewrite ?H7, ?H8); rewrite ?app_nil_r; reflexivity.
    - rewrite (proj1 (has_quote_index s) Ei). sstep'. rewrite ?He_s, ?He_d. sstep'. now rewrite (fast_path _ s Hsep). }
  (* the first three statements: the empty text, the separator *)
  unfold run_split. rewrite <- (firstn_skipn 3 (fn_body fn_ValidNamesSplit)), sexec_list_app.
  set (rest := skipn 3 (fn_body fn_ValidNamesSplit)) in *.
  destruct seps as [|b seps'];
    lazy beta iota zeta delta [sexec sexec_list seval sset sempty fn_body fn_ValidNamesSplit firstn
                               String.eqb Ascii.eqb Bool.eqb andb orb negb];
    cbn [List.length Z.of_nat Z.ltb Z.leb Z.compare Pos.of_succ_nat nth_error Z.to_nat Z.opp];
    rewrite Hne;
    lazy beta iota zeta delta [sexec sexec_list seval sset sempty String.eqb Ascii.eqb Bool.eqb andb orb negb];
    cbn [List.length Z.of_nat Z.ltb Z.leb Z.compare Pos.of_succ_nat nth_error Z.to_nat Z.opp];
    apply Hgen; reflexivity.
Qed.
