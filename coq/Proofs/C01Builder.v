(* C01Builder.v — the size rules through the rule TEXT: for bounds written with strconv.Itoa by the
   documented builder (key=lo~hi|msg, key=b|msg), the rule functions read back exactly those
   bounds, for every int64 bound, and judge by them. *)
From PGV Require Import Base.Bytes Base.GoStr Base.GoNum Base.Utf8.
From PGV Require Import Extracted.SourceConst Extracted.SourceTable.
From PGV Require Import Model.RuleText Model.Value Model.Clause Model.Rules Model.Walk Spec.SizeSpec Spec.RuleTextSpec.
From PGV Require Import Proofs.SizeProofs Run.Run_C01 Proofs.C01Final Proofs.RuleTextProofs Proofs.NumProofs.
Open Scope Z_scope.

Definition not_bracketed (k : str) : bool := negb (str_eqb k k_in || str_eqb k k_include).

Lemma pk_val_rule_text r : wf_rule r = true -> not_bracketed (r_key r) = true -> pk_val (RuleTextSpec.rule_text r) = r_val r.
Proof.
  intros Hw Hk. unfold pk_val. rewrite (parse_rule_text r Hw). unfold parsed_spec, value_spec. cbn [fst snd].
  unfold not_bracketed in Hk. apply negb_true_iff in Hk. rewrite Hk. now destruct (r_val r).
Qed.

Theorem two_bound_rules_text he key lo hi m obj field v x :
  in_int64 lo = true -> in_int64 hi = true -> not_bracketed key = true ->
  let r := {| r_key := key; r_val := itoa lo ++ TILDE ++ itoa hi; r_msg := m |} in
  wf_rule r = true -> sizeable v = true -> measure v = Some x ->
  violated (to_like he (RuleTextSpec.rule_text r) obj field v) = negb (in_set (if he then RTo else ROTo) lo hi x) /\
  (length (to_like he (RuleTextSpec.rule_text r) obj field v) <= 1)%nat.
Proof.
  intros Hlo Hhi Hk r Hw Hs Hm. apply two_bound_rules; try assumption.
  rewrite (pk_val_rule_text r Hw Hk). cbn [r_val r]. now apply parse_tag_to_itoa.
Qed.

Theorem one_bound_rules_text lower he rule key b m obj field v x :
  in_int64 b = true -> not_bracketed key = true ->
  let r := {| r_key := key; r_val := itoa b; r_msg := m |} in
  wf_rule r = true -> sizeable v = true -> measure v = Some x ->
  violated (one_sided lower he rule (RuleTextSpec.rule_text r) obj field v) =
    negb (in_set (if lower then (if he then RGe else RGt) else (if he then RLe else RLt)) b b x) /\
  (length (one_sided lower he rule (RuleTextSpec.rule_text r) obj field v) <= 1)%nat.
Proof.
  intros Hb Hk r Hw Hs Hm. pose proof (one_bound_rules lower he rule (RuleTextSpec.rule_text r) obj field v x Hs Hm) as H.
  cbv zeta in H. rewrite (pk_val_rule_text r Hw Hk) in H. cbn [r_val r] in H. now rewrite (atoi_itoa b Hb) in H.
Qed.

Theorem eq_rules_text want key b m obj field v x :
  in_int64 b = true -> not_bracketed key = true ->
  let r := {| r_key := key; r_val := itoa b; r_msg := m |} in
  wf_rule r = true -> sizeable v = true -> measure v = Some x ->
  violated (eq_like want (RuleTextSpec.rule_text r) obj field v) = negb (in_set (if want then REq else RNoEq) b 0 x) /\
  (length (eq_like want (RuleTextSpec.rule_text r) obj field v) <= 1)%nat.
Proof.
  intros Hb Hk r Hw Hs Hm. pose proof (eq_rules want (RuleTextSpec.rule_text r) obj field v x Hs Hm) as H.
  rewrite (pk_val_rule_text r Hw Hk) in H. cbn [r_val r] in H. now rewrite (atoi_itoa b Hb) in H.
Qed.
