(* Rx.v — the raw regular-expression trees the translator prints (a direct image of Go's
   regexp/syntax.Regexp), and their normalisation into anchored search patterns over [re]. *)
From PGV Require Import Base.Bytes Base.Utf8 Regex.Re.
Open Scope N_scope.

Inductive rx :=
| XNoMatch | XEps
| XLit (rs : list rune)
| XCls (ranges : list (N * N))
| XAnyNotNL | XAny
| XBol | XEol
| XCap (r : rx)
| XStar (r : rx) | XPlus (r : rx) | XQuest (r : rx)
| XRep (min : nat) (max : option nat) (r : rx)     (* max = None: unbounded *)
| XCat (a b : rx) | XAlt (a b : rx).

Definition MaxRune : N := 1114111.
Definition any_cls : list (N * N) := [(0, MaxRune)].
Definition any_not_nl : list (N * N) := [(0, 9); (11, MaxRune)].

Fixpoint lit (rs : list rune) : re :=
  match rs with
  | [] => Eps
  | [c] => Cls [(c, c)]
  | c :: r => Cat (Cls [(c, c)]) (lit r)
  end.

Fixpoint upto (n : nat) (r : re) : re :=      (* r{0,n} *)
  match n with O => Eps | S k => Alt Eps (Cat r (upto k r)) end.

(* anchor-free part *)
Fixpoint to_re (x : rx) : option re :=
  match x with
  | XNoMatch => Some Empty
  | XEps => Some Eps
  | XLit rs => Some (lit rs)
  | XCls rs => Some (Cls rs)
  | XAnyNotNL => Some (Cls any_not_nl)
  | XAny => Some Any
  | XBol | XEol => None
  | XCap r => to_re r
  | XStar r => option_map Star (to_re r)
  | XPlus r => option_map plus (to_re r)
  | XQuest r => option_map opt (to_re r)
  | XRep mn mx r =>
    match to_re r with
    | None => None
    | Some r' => match mx with
                 | None => Some (Cat (rep mn r') (Star r'))
                 | Some m => Some (Cat (rep mn r') (upto (m - mn) r'))
                 end
    end
  | XCat a b => match to_re a, to_re b with Some a', Some b' => Some (Cat a' b') | _, _ => None end
  | XAlt a b => match to_re a, to_re b with Some a', Some b' => Some (Alt a' b') | _, _ => None end
  end.

(* a search pattern: anchored at the start? body, anchored at the end? *)
Record pattern := { p_bol : bool; p_body : re; p_eol : bool }.

Fixpoint strip_cap (x : rx) : rx := match x with XCap r => strip_cap r | _ => x end.

(* flatten a concatenation into its factors *)
Fixpoint factors (x : rx) : list rx :=
  match x with
  | XCat a b => factors a ++ factors b
  | XCap r => factors r
  | _ => [x]
  end.

Fixpoint cat_all (l : list rx) : option re :=
  match l with
  | [] => Some Eps
  | x :: r => match to_re x, cat_all r with Some a, Some b => Some (Cat a b) | _, _ => None end
  end.

Definition is_bol (x : rx) := match x with XBol => true | _ => false end.
Definition is_eol (x : rx) := match x with XEol => true | _ => false end.

Definition one_pattern (x : rx) : option pattern :=
  let fs := factors x in
  let '(bol, fs1) := match fs with f :: r => if is_bol f then (true, r) else (false, fs) | [] => (false, fs) end in
  let '(eol, fs2) := match rev fs1 with f :: r => if is_eol f then (true, rev r) else (false, fs1) | [] => (false, fs1) end in
  option_map (fun b => {| p_bol := bol; p_body := b; p_eol := eol |}) (cat_all fs2).

(* top level: an alternation of anchored alternatives, or one pattern *)
Fixpoint patterns (fuel : nat) (x : rx) : option (list pattern) :=
  match fuel with
  | O => None
  | S f =>
    match strip_cap x with
    | XAlt a b => match patterns f a, patterns f b with
                  | Some l1, Some l2 => Some (l1 ++ l2) | _, _ => None end
    | y => option_map (fun p => [p]) (one_pattern y)
    end
  end.

Definition any_star : re := Star Any.
Definition pattern_re (p : pattern) : re :=
  Cat (if p_bol p then Eps else any_star) (Cat (p_body p) (if p_eol p then Eps else any_star)).

(* Go's Regexp.MatchString on the decoded runes of the input *)
Definition match_patterns (ps : list pattern) (s : list rune) : bool :=
  existsb (fun p => matchb (pattern_re p) s) ps.
Definition match_string (ps : list pattern) (s : str) : bool := match_patterns ps (decode s).
