(* Re.v — regular expressions over runes: language (inductive), Brzozowski matcher, equivalence. *)
From PGV Require Import Base.Bytes Base.Utf8.
Open Scope N_scope.

Inductive re := Empty | Eps | Any | Cls (rs : list (N*N)) | Cat (a b : re) | Alt (a b : re) | Star (a : re).

Definition in_cls (rs : list (N*N)) (c : rune) : bool :=
  existsb (fun p => (fst p <=? c) && (c <=? snd p)) rs.

Inductive lang : re -> list rune -> Prop :=
| LEps : lang Eps []
| LAny c : lang Any [c]
| LCls rs c : in_cls rs c = true -> lang (Cls rs) [c]
| LCat a b s t : lang a s -> lang b t -> lang (Cat a b) (s ++ t)
| LAltL a b s : lang a s -> lang (Alt a b) s
| LAltR a b s : lang b s -> lang (Alt a b) s
| LStar0 a : lang (Star a) []
| LStarS a s t : lang a s -> lang (Star a) t -> lang (Star a) (s ++ t).

Fixpoint nullable (r : re) : bool :=
  match r with
  | Empty => false | Eps => true | Any => false | Cls _ => false
  | Cat a b => nullable a && nullable b | Alt a b => nullable a || nullable b | Star _ => true
  end.

Fixpoint deriv (c : rune) (r : re) : re :=
  match r with
  | Empty | Eps => Empty
  | Any => Eps
  | Cls rs => if in_cls rs c then Eps else Empty
  | Cat a b => if nullable a then Alt (Cat (deriv c a) b) (deriv c b) else Cat (deriv c a) b
  | Alt a b => Alt (deriv c a) (deriv c b)
  | Star a => Cat (deriv c a) (Star a)
  end.

Fixpoint matchb (r : re) (s : list rune) : bool :=
  match s with [] => nullable r | c :: s' => matchb (deriv c r) s' end.

Lemma lang_eps_inv s : lang Eps s -> s = [].
Proof. intros H; inversion H; reflexivity. Qed.
Lemma lang_empty_inv s : lang Empty s -> False.
Proof. intros H; inversion H. Qed.
Lemma lang_cat_inv a b w : lang (Cat a b) w -> exists s t, w = s ++ t /\ lang a s /\ lang b t.
Proof. intros H; inversion H; subst; eauto. Qed.
Lemma lang_alt_inv a b w : lang (Alt a b) w -> lang a w \/ lang b w.
Proof. intros H; inversion H; subst; auto. Qed.
Lemma lang_cls_inv rs s : lang (Cls rs) s <-> exists c, s = [c] /\ in_cls rs c = true.
Proof. split; [intros H; inversion H; eauto|intros (c & -> & H); now constructor]. Qed.

Lemma nullable_lang r : nullable r = true <-> lang r [].
Proof.
  induction r as [| | |rs|a IHa b IHb|a IHa b IHb|a IHa]; cbn; split; intros H; try discriminate.
  - now apply lang_empty_inv in H.
  - constructor.
  - reflexivity.
  - inversion H.
  - apply lang_cls_inv in H as (c & Hc & _). discriminate.
  - apply andb_prop in H as [Ha Hb]. change (@nil rune) with (@nil rune ++ []).
    constructor; [apply IHa|apply IHb]; assumption.
  - apply lang_cat_inv in H as (s & t & E & Hs & Ht). symmetry in E. apply app_eq_nil in E as [-> ->].
    apply andb_true_intro; split; [apply IHa|apply IHb]; assumption.
  - apply orb_prop in H as [H|H]; [apply LAltL, IHa|apply LAltR, IHb]; assumption.
  - apply lang_alt_inv in H as [H|H]; apply orb_true_intro; [left; apply IHa|right; apply IHb]; assumption.
  - constructor.
  - reflexivity.
Qed.

Lemma star_cons_inv a c s : lang (Star a) (c :: s) ->
  exists s1 s2, s = s1 ++ s2 /\ lang a (c :: s1) /\ lang (Star a) s2.
Proof.
  remember (Star a) as r eqn:Er. remember (c :: s) as w eqn:Ew.
  intros H. revert c s Er Ew.
  induction H as [| | | | | | |a0 s1 t H1 IH1 H2 IH2]; intros c0 s0 Er Ew; try discriminate.
  inversion Er; subst a0.
  destruct s1 as [|x s1].
  - cbn in Ew. apply (IH2 c0 s0 eq_refl Ew).
  - cbn in Ew. inversion Ew; subst. exists s1, t. auto.
Qed.

Lemma deriv_lang c r s : lang (deriv c r) s <-> lang r (c :: s).
Proof.
  revert s; induction r as [| | |rs|a IHa b IHb|a IHa b IHb|a IHa]; intros s; cbn [deriv].
  - split; intros H; now apply lang_empty_inv in H.
  - split; intros H; [now apply lang_empty_inv in H|apply lang_eps_inv in H; discriminate].
  - split; intros H; [apply lang_eps_inv in H; subst; constructor|inversion H; constructor].
  - destruct (in_cls rs c) eqn:E; split; intros H.
    + apply lang_eps_inv in H; subst. now constructor.
    + apply lang_cls_inv in H as (c' & Hc & _). inversion Hc; subst. constructor.
    + now apply lang_empty_inv in H.
    + apply lang_cls_inv in H as (c' & Hc & Hin). inversion Hc; subst. congruence.
  - destruct (nullable a) eqn:En; split; intros H.
    + apply lang_alt_inv in H as [H|H].
      * apply lang_cat_inv in H as (s1 & t & -> & Hs & Ht).
        change (c :: s1 ++ t) with ((c :: s1) ++ t). constructor; [apply IHa|]; assumption.
      * change (c :: s) with ([] ++ c :: s). constructor; [apply nullable_lang; assumption|apply IHb; assumption].
    + apply lang_cat_inv in H as (s1 & t & E & Hs & Ht). destruct s1 as [|x s1]; cbn in E.
      * subst t. apply LAltR. apply IHb. assumption.
      * inversion E; subst. apply LAltL. constructor; [apply IHa|]; assumption.
    + apply lang_cat_inv in H as (s1 & t & -> & Hs & Ht).
      change (c :: s1 ++ t) with ((c :: s1) ++ t). constructor; [apply IHa|]; assumption.
    + apply lang_cat_inv in H as (s1 & t & E & Hs & Ht). destruct s1 as [|x s1]; cbn in E.
      * apply nullable_lang in Hs. congruence.
      * inversion E; subst. constructor; [apply IHa|]; assumption.
  - split; intros H; apply lang_alt_inv in H as [H|H];
      [apply LAltL, IHa|apply LAltR, IHb|apply LAltL, IHa|apply LAltR, IHb]; assumption.
  - split; intros H.
    + apply lang_cat_inv in H as (s1 & t & -> & Hs & Ht).
      change (c :: s1 ++ t) with ((c :: s1) ++ t). constructor; [apply IHa|]; assumption.
    + apply star_cons_inv in H as (s1 & s2 & -> & H1 & H2). constructor; [apply IHa|]; assumption.
Qed.

Theorem matchb_lang r s : matchb r s = true <-> lang r s.
Proof.
  revert r; induction s as [|c s IH]; intros r; cbn.
  - apply nullable_lang.
  - rewrite IH. apply deriv_lang.
Qed.

(* ---- derived forms and language lemmas ---- *)
Fixpoint rep (n : nat) (r : re) : re := match n with O => Eps | S k => Cat r (rep k r) end.

Lemma lang_rep_cls n rs s : lang (rep n (Cls rs)) s <-> length s = n /\ forallb (in_cls rs) s = true.
Proof.
  revert s; induction n as [|n IH]; intros s; cbn [rep].
  - split; [intros H; apply lang_eps_inv in H; subst; auto|intros [H _]; destruct s; [constructor|discriminate]].
  - split.
    + intros H; apply lang_cat_inv in H as (s1 & t & -> & H1 & H2). apply lang_cls_inv in H1 as (c & -> & Hc).
      apply IH in H2 as [Hl Hf]. cbn. rewrite Hc, Hf, Hl. auto.
    + intros [Hl Hf]. destruct s as [|c s]; [discriminate|]. cbn in *.
      apply andb_prop in Hf as [Hc Hf]. change (c :: s) with ([c] ++ s).
      constructor; [now constructor|apply IH; split; [lia|assumption]].
Qed.


Definition plus (r : re) : re := Cat r (Star r).
Definition opt (r : re) : re := Alt Eps r.

Lemma forallb_ext' {A} (f g : A -> bool) l : (forall x, f x = g x) -> forallb f l = forallb g l.
Proof. intros H; induction l as [|x l IH]; cbn; [reflexivity|now rewrite H, IH]. Qed.

Lemma in_cls1 lo hi c : in_cls [(lo,hi)] c = (lo <=? c) && (c <=? hi).
Proof. unfold in_cls; cbn. now rewrite orb_false_r. Qed.
